"""Shared driver for the connection-level checks (engine B of DESIGN.md):
scenarios -> Go harness (real connection loop over a scripted net.Conn) -> ndjson -> TraceConn.tla."""
import json
import os
import subprocess
import vlib


def run_scenarios(ctx, scenarios, name="conn", timeout_ms=3000, module="TraceConn", extra_constants=""):
    """Runs scenario dicts through `vharness conn`; returns (accepted ids, all ids, lines by id, line->scenario)."""
    if len(scenarios) > 200000:
        # scenario ids are line * 10000 + expansion index and must stay below 2^31 (TLC integers are 32 bit)
        raise vlib.Inconclusive("%d scenario lines: more than the 200000 that 32-bit scenario ids allow" % len(scenarios))
    scen = os.path.join(ctx.work, name + "_scen.jsonl")
    vlib.write_jsonl(scen, scenarios)
    trace = os.path.join(ctx.work, name + ".ndjson")
    frm = 0
    first = True
    restarts = 0
    while True:
        args = ["conn", "--scenarios", scen, "--out", trace, "--timeout-ms", timeout_ms, "--from", frm]
        if not first:
            args.append("--append")
        p = ctx.harness(args, timeout=3600, ok_codes=(0, 2, 3))
        first = False
        if p.returncode == 0:
            break
        if p.returncode == 2:
            # the Go runtime ended the process (an uncaught panic, or 'all goroutines are asleep - deadlock!'); if the server's
            # own code is on the stacks, the server would have died (or hung) the same way: a violation in its own right for the
            # scenario that was running.  Anything else is an infrastructure failure.
            head = [l for l in p.stderr.splitlines() if l.startswith("fatal error:") or l.startswith("panic:")]
            last = 0
            if os.path.exists(trace):
                with open(trace, "rb") as f:
                    f.seek(max(0, os.path.getsize(trace) - 200000))
                    tail = f.read().decode("latin1").splitlines()
                for ln in reversed(tail):
                    try:
                        last = json.loads(ln)["sc"] // 10000
                        break
                    except Exception:
                        continue
            if not head or "go-redis/redis." not in p.stderr or last == 0 or last <= frm:
                raise vlib.Inconclusive("harness conn failed (exit 2):\n%s\n%s" % (p.stdout[-2000:], p.stderr[-3000:]))
            where = [l.strip() for l in p.stderr.splitlines() if "go-redis/redis." in l][:6]
            ctx.violation("the process serving the connections was ended by the Go runtime: %s; server frames: %s" % (head[0], "; ".join(where)[:300]),
                          {"scenario": scenarios[last - 1], "stderr": p.stderr[-4000:]})
            frm = last
            restarts += 1
            if restarts >= 30:
                break
            continue
        # exit 3: a connection stalled (spinning goroutine); restart after that scenario
        frm = int(p.stdout.strip().split()[-1])
        restarts += 1
        if restarts >= 30:
            ctx.notes.append("%s: 30 stalled scenarios; the remaining scenario lines (from %d) were not run" % (name, frm))
            break
    ctx.notes.append("%s: %d scenario lines, %d harness restarts after stalls" % (name, len(scenarios), restarts))
    ctx.stage(name + "-harness")
    accepted, scs, lines = ctx.validate(trace, module, stateful=True, constants="CONSTANT Diagnose = FALSE\n" + extra_constants)
    ctx.stage(name + "-validate")
    return accepted, scs, lines


def diagnose(ctx, lines, module="TraceConn", extra_constants=""):
    """Finds the first event of one scenario that the trace specification does not allow."""
    path = os.path.join(ctx.work, "diag_%d.ndjson" % len(ctx.tlc_runs))
    with open(path, "w") as f:
        n = len(lines)
        for ln in lines:
            o = json.loads(ln)
            o["end"] = n
            f.write(json.dumps(o, separators=(",", ":")) + "\n")
    cfg = "SPECIFICATION Spec\nCONSTANT TraceFile = \"%s\"\nCONSTANT Diagnose = TRUE\n%sINVARIANT DiagAt\nCHECK_DEADLOCK FALSE\n" % (
        path, extra_constants)
    r = ctx.tlc(module, cfg, name=module + "_diag", workers=1, timeout=300)
    at = 0
    for tag, rest in r.prints:
        if tag == "AT":
            at = max(at, int(rest))
    # l = at is the (1-based) index of the event no operator allowed
    idx = min(at, len(lines)) - 1
    return idx, json.loads(lines[idx])


def describe(ev):
    e = dict(ev)
    for k in ("sc", "end"):
        e.pop(k, None)
    if "b" in e:
        e["b"] = bytes(e["b"]).decode("latin1")
    if e.get("ev") == "stall":
        e["stack"] = e.get("stack", "")[:300]
    return json.dumps(e)[:400]


def request_names(lines):
    out = []
    for ln in lines:
        if '"ev":"reqs"' in ln:
            o = json.loads(ln)
            for r in o["reqs"]:
                if r["frame"]:
                    out.append("<frame>")
                else:
                    out.append(" ".join([r["name"]] + [bytes(a["b"]).decode("latin1")[:12] if a["k"] != "null" else "<null>" for a in r["args"]]))
    return out


def pregroup_key(ls):
    """Cheap grouping of rejected scenarios before diagnosis: the command names of the requests."""
    names = request_names(ls)
    return tuple(n.split(" ")[0] for n in names)[:6]


def report(ctx, accepted, scs, lines, scenario_of, signature=None, max_diag=60, module="TraceConn", extra_constants=""):
    """Groups rejected scenarios: stalls and panics by their text, the others by (request names, first event the
    specification does not allow); one member of each group of request names is diagnosed with TLC."""
    rejected = [sc for sc in scs if sc not in accepted]
    groups = {}
    pending = {}
    for sc in rejected:
        ls = lines[sc]
        quick_sig = None
        for ln in ls:
            if '"ev":"stall"' in ln:
                quick_sig = ("stall", "connection stalled (no reply, loop still running): " + " | ".join(request_names(ls))[:160])
                break
            if '"ev":"return"' in ln and '"panic":""' not in ln:
                o = json.loads(ln)
                quick_sig = ("panic", "panic escaped the connection loop: " + o["panic"].split("\n")[0][:120])
                break
        if quick_sig is None:
            pending.setdefault(pregroup_key(ls), []).append(sc)
        else:
            sig = signature(sc, ls, quick_sig, None) if signature else quick_sig
            groups.setdefault(sig, []).append(sc)
    diagnosed = 0
    for key, members in sorted(pending.items(), key=lambda kv: -len(kv[1])):
        if diagnosed < max_diag:
            diagnosed += 1
            sc = min(members, key=lambda s: len(lines[s]))
            idx, ev = diagnose(ctx, lines[sc], module, extra_constants)
            ctxt = ""
            if ev.get("ev") in ("write", "call", "block", "close"):
                # which request was being answered: replies written so far on this connection
                c = ev.get("c", 0)
                done = sum(1 for ln in lines[sc][:idx] if '"ev":"write"' in ln and json.loads(ln).get("c") == c)
                per_conn = []
                for ln in lines[sc]:
                    if '"ev":"reqs"' in ln and json.loads(ln).get("c") == c:
                        per_conn += request_names([ln])
                if done < len(per_conn):
                    ctxt = " while answering request #%d '%s'" % (done + 1, per_conn[done][:60])
                    if done > 0:
                        ctxt += " (after '%s')" % per_conn[done - 1][:40]
            quick_sig = (ev.get("ev", "?") + ":" + "/".join(key), "event not allowed by the specification: " + describe(ev)[:200] + ctxt)
        else:
            ev = None
            quick_sig = ("undiagnosed:" + "/".join(key), "rejected (not diagnosed: more than %d groups)" % max_diag)
        for sc in members:
            sig = signature(sc, lines[sc], quick_sig, ev) if signature else quick_sig
            groups.setdefault(sig, []).append(sc)
    return sorted(groups.items(), key=lambda kv: (-len(kv[1]), str(kv[0])))


def violations_from_groups(ctx, groups, lines, scenario_of, known_matcher=None):
    for sig, members in groups:
        sc = min(members, key=lambda s: len(lines[s]))
        what = "%s [%d scenario(s)] requests: %s" % (sig[1], len(members), " | ".join(request_names(lines[sc]))[:200])
        finding = known_matcher(sig, members, lines) if known_matcher else None
        if finding:
            ctx.known(finding, what)
            continue
        ctx.violation(what, {"scenario": scenario_of(sc), "signature": list(sig), "count": len(members),
                             "trace": [json.loads(x) for x in lines[sc]][:200]})
