"""Shared machinery of the /verif checks.

Flow of every check (see DESIGN.md section 3):
  build harness against /repo's working tree (tag verif)
  -> TLC: exhaustive run of the property's model (design-level invariants,
     scenario export through PrintT(<<"SCENARIO", ToJson(..)>>))
  -> Go harness: replays scenarios into the real code, records ndjson traces
  -> TLC: trace validation (Trace*.tla reuse the model's operators); a scenario
     is accepted iff TLC printed <<"OK", sc>> for it
  -> triage against known_findings.jsonl, evidence file, exit code.

Exit codes: 0 held (maybe KNOWN-FINDING lines), 1 VIOLATION, 2 inconclusive
(infrastructure problem; never reported as a violation).
"""
import json
import os
import re
import shutil
import subprocess
import sys
import tempfile
import time
from concurrent.futures import ThreadPoolExecutor

ROOT = os.path.dirname(os.path.dirname(os.path.abspath(__file__)))
REPO = os.environ.get("VERIF_REPO", "/repo")
SPEC = os.path.join(ROOT, "spec")
EVID = os.environ.get("VERIF_EVID", os.path.join(ROOT, "evidence"))
NCPU = os.cpu_count() or 4


class Inconclusive(Exception):
    pass


def goenv():
    e = dict(os.environ)
    e.update({"GOFLAGS": "-mod=mod", "GOPROXY": "off", "GOSUMDB": "off", "GOTOOLCHAIN": "local",
              "CGO_ENABLED": e.get("CGO_ENABLED", "0")})
    return e


class TlcResult:
    def __init__(self):
        self.completed = False
        self.generated = 0
        self.distinct = 0
        self.depth = 0
        self.ok = set()
        self.scenarios = []
        self.prints = []
        self.error = ""
        self.violated = ""
        self.out_path = ""
        self.wall = 0.0
        self.coverage_zero = []


_PRINT_RE = re.compile(r'^<<"([A-Za-z_]+)", (.*)>>$')


def unescape_tla(s):
    # TLC prints strings with \" and \\ escapes
    return s.replace('\\"', '"').replace("\\\\", "\\")


class Ctx:
    def __init__(self, pid, argv=None):
        argv = list(sys.argv[1:] if argv is None else argv)
        self.pid = pid
        self.tier = os.environ.get("VERIF_TIER", "quick")
        self.replay = None
        self.keep = bool(os.environ.get("VERIF_KEEP"))
        i = 0
        while i < len(argv):
            a = argv[i]
            if a == "--tier":
                self.tier = argv[i + 1]
                i += 1
            elif a.startswith("--tier="):
                self.tier = a.split("=", 1)[1]
            elif a == "--replay":
                self.replay = argv[i + 1]
                i += 1
            elif a == "--keep":
                self.keep = True
            i += 1
        if self.tier not in ("quick", "thorough"):
            self.tier = "quick"
        try:
            self.seed = int(os.environ.get("VERIF_SEED", "1"))
        except ValueError:
            self.seed = 1
        self.t0 = time.time()
        base = os.path.join(ROOT, ".work")
        os.makedirs(base, exist_ok=True)
        self.work = tempfile.mkdtemp(prefix="%s-%s-" % (pid, self.tier), dir=base)
        self.specdir = os.path.join(self.work, "spec")
        os.makedirs(self.specdir)
        for d in (SPEC, os.path.join(SPEC, "mc")):
            for f in os.listdir(d):
                if f.endswith((".tla", ".cfg")):
                    shutil.copy(os.path.join(d, f), self.specdir)
        self.jtmp = os.path.join(self.work, "jtmp")
        os.makedirs(self.jtmp)
        self.vh = os.path.join(self.work, "vharness")
        self.tlc_runs = []
        self.violations = []     # dicts: what, replay
        self.known_hit = []      # finding ids
        self.notes = []
        self.findings = load_findings(pid)

    def stage(self, name):
        now = time.time()
        self.notes.append("%s %.1fs" % (name, now - getattr(self, "_last", self.t0)))
        self._last = now

    # ------------------------------------------------------------------ build
    def build(self, race=False):
        """Builds the harness against the current /repo tree with hooks on."""
        hdir = os.path.join(ROOT, "harness")
        if REPO != "/repo":
            # testing against a scratch copy of the repository (seeded changes): private copy of the harness
            # sources whose go.mod points at that copy
            hdir = os.path.join(self.work, "harness_src")
            if not os.path.isdir(hdir):
                shutil.copytree(os.path.join(ROOT, "harness"), hdir)
                gm = open(os.path.join(hdir, "go.mod")).read().replace("=> /repo", "=> " + REPO)
                open(os.path.join(hdir, "go.mod"), "w").write(gm)
        try:
            shutil.copy(os.path.join(REPO, "go.sum"), os.path.join(hdir, "go.sum"))
        except OSError:
            pass
        cmd = ["go", "build", "-tags", "verif"]
        env = goenv()
        if race:
            cmd.append("-race")
            env["CGO_ENABLED"] = "1"
        cmd += ["-o", self.vh + ("-race" if race else ""), "."]
        t = time.time()
        p = subprocess.run(cmd, cwd=hdir, env=env, stdout=subprocess.PIPE, stderr=subprocess.STDOUT, text=True)
        if p.returncode != 0:
            raise Inconclusive("harness does not build against the current tree:\n" + p.stdout[-3000:])
        self.notes.append("harness build %.1fs%s" % (time.time() - t, " (race)" if race else ""))
        return self.vh + ("-race" if race else "")

    def harness(self, args, timeout=600, race=False, env=None, ok_codes=(0,)):
        exe = self.vh + ("-race" if race else "")
        e = goenv()
        if env:
            e.update(env)
        try:
            p = subprocess.run([exe] + [str(a) for a in args], cwd=self.work, env=e, stdout=subprocess.PIPE,
                               stderr=subprocess.PIPE, text=True, timeout=timeout, errors="replace")
        except subprocess.TimeoutExpired:
            raise Inconclusive("harness %s timed out after %ds" % (args[0], timeout))
        if p.returncode not in ok_codes:
            raise Inconclusive("harness %s failed (exit %d):\n%s\n%s" % (args[0], p.returncode, p.stdout[-2000:], p.stderr[-3000:]))
        return p

    # -------------------------------------------------------------------- TLC
    def tlc(self, module, cfg, name=None, workers=1, timeout=900, simulate=None, depth=None, coverage=False,
            deadlock=False, extra=None, dfs=False, tolerate_violation=False, heap=None):
        """Runs TLC on spec/<module>.tla with configuration text or file name cfg."""
        name = name or module
        if "\n" in cfg or cfg.strip().startswith("SPECIFICATION") or cfg.strip().startswith("INIT"):
            cfgfile = os.path.join(self.specdir, name + "_run%d.cfg" % len(self.tlc_runs))
            with open(cfgfile, "w") as f:
                f.write(cfg)
        else:
            cfgfile = os.path.join(self.specdir, cfg)
        meta = tempfile.mkdtemp(prefix="meta-", dir=self.work)
        out = os.path.join(self.work, "%s_%d.out" % (name, len(self.tlc_runs)))
        jopts = "-Xss512m -Djava.io.tmpdir=%s" % self.jtmp
        if heap:          # (the JVM's default maximum is a quarter of the machine's memory: too much for 16 parallel validations)
            jopts += " -Xmx" + heap
        if dfs:
            jopts += " -Dtlc2.tool.queue.IStateQueue=StateDeque"
        env = dict(os.environ)
        env["JAVA_TOOL_OPTIONS"] = jopts
        cmd = ["timeout", str(timeout), "tlc", "-workers", str(workers), "-metadir", meta, "-config", cfgfile,
               "-seed", str(self.seed), "-noGenerateSpecTE"]
        if simulate:
            cmd += ["-simulate", simulate]
        if depth:
            cmd += ["-depth", str(depth)]
        if coverage:
            cmd += ["-coverage", "1"]
        if deadlock:
            cmd += ["-deadlock"]
        if extra:
            cmd += extra
        cmd.append(os.path.join(self.specdir, module + ".tla"))
        t = time.time()
        with open(out, "w") as f:
            p = subprocess.run(cmd, cwd=self.specdir, env=env, stdout=f, stderr=subprocess.STDOUT)
        r = TlcResult()
        r.wall = time.time() - t
        r.out_path = out
        self._parse_tlc(out, r)
        shutil.rmtree(meta, ignore_errors=True)
        self.tlc_runs.append({"name": name, "module": module, "generated": r.generated, "distinct": r.distinct,
                              "depth": r.depth, "wall_s": round(r.wall, 2), "completed": r.completed,
                              "ok_printed": len(r.ok), "scenarios": len(r.scenarios)})
        if simulate and p.returncode == 0 and not r.violated:
            r.completed = True
        if p.returncode == 124:
            raise Inconclusive("TLC timed out on %s after %ds" % (name, timeout))
        if not r.completed and not (tolerate_violation and r.violated):
            if r.violated and not tolerate_violation:
                raise Inconclusive("TLC reports a violated property of the MODEL %s (%s); see %s\n%s" % (
                    name, r.violated, out, r.error[-1500:]))
            raise Inconclusive("TLC failed on %s (exit %d); see %s\n%s" % (name, p.returncode, out, r.error[-2000:]))
        return r

    def _parse_tlc(self, path, r):
        err = []
        in_err = 0
        with open(path, errors="replace") as f:
            for line in f:
                line = line.rstrip("\n")
                if line.startswith('<<"'):
                    m = _PRINT_RE.match(line)
                    if m:
                        tag, rest = m.group(1), m.group(2)
                        if tag == "OK":
                            try:
                                r.ok.add(int(rest))
                            except ValueError:
                                r.prints.append((tag, rest))
                        elif tag == "SCENARIO":
                            r.scenarios.append(unescape_tla(rest[1:-1]))
                        else:
                            r.prints.append((tag, rest))
                        continue
                if line.startswith("Model checking completed. No error has been found"):
                    r.completed = True
                elif "states generated" in line and "distinct states found" in line:
                    m = re.search(r"(\d+) states generated, (\d+) distinct states found", line)
                    if m:
                        r.generated, r.distinct = int(m.group(1)), int(m.group(2))
                elif line.startswith("The depth of the complete state graph search is"):
                    r.depth = int(re.search(r"is (\d+)", line).group(1))
                elif line.startswith("Error:"):
                    in_err = 12
                    if "Invariant" in line and "is violated" in line:
                        r.violated = line
                    if "Action property" in line and "is violated" in line:
                        r.violated = line
                    if "Temporal properties were violated" in line:
                        r.violated = line
                elif line.startswith("Finished in") and "simulation" in line.lower():
                    r.completed = True
                if line.startswith("The number of states generated:"):
                    m = re.search(r"(\d+)", line)
                    if m:
                        r.generated = int(m.group(1))
                if "Simulation using seed" in line or "Progress: " in line and "states checked" in line:
                    m = re.search(r"(\d+) states checked", line)
                    if m:
                        r.generated = max(r.generated, int(m.group(1)))
                if in_err > 0:
                    err.append(line)
                    in_err -= 1
                m = re.match(r"^\s*<(\w+) line .* of module (\w+)>: (\d+):(\d+)$", line)
                if m and m.group(3) == "0" and m.group(4) == "0":
                    r.coverage_zero.append(m.group(1))
        r.error = "\n".join(err)

    # ------------------------------------------------------- trace validation
    def validate(self, trace_path, module, stateful=True, shards=None, constants="", invariants=None, timeout=900,
                 spec_name="Spec", dfs=False):
        """Validates an ndjson trace with spec/<module>.tla.  Returns (accepted ids, all ids, by_sc lines)."""
        scs = []          # scenario ids in order
        lines_by_sc = {}
        with open(trace_path, errors="replace") as f:
            for line in f:
                if not line.strip():
                    continue
                sc = json.loads(line)["sc"]
                if sc not in lines_by_sc:
                    lines_by_sc[sc] = []
                    scs.append(sc)
                lines_by_sc[sc].append(line if line.endswith("\n") else line + "\n")
        if not scs:
            raise Inconclusive("empty trace %s" % trace_path)
        nlines = sum(len(v) for v in lines_by_sc.values())
        size = {sc: sum(len(x) for x in v) for sc, v in lines_by_sc.items()}
        if shards is None:
            # by lines and by bytes: TLC's cost per event grows with the size of the file it has loaded
            shards = max(1, min(NCPU, max(nlines // 4000, sum(size.values()) // (2 << 20)) + 1))
        shards = max(1, min(shards, len(scs)))
        groups = [[] for _ in range(shards)]
        load = [0] * shards
        for i, sc in enumerate(scs):
            if size[sc] > (64 << 10):          # big scenarios go to the least loaded shard, the rest round-robin
                g = load.index(min(load))
            else:
                g = i % shards
            groups[g].append(sc)
            load[g] += size[sc]
        groups = [g for g in groups if g]
        files = []
        for gi, g in enumerate(groups):
            p = os.path.join(self.work, "%s_shard%d_%d.ndjson" % (module, len(self.tlc_runs), gi))
            with open(p, "w") as f:
                idx = 0
                for sc in g:
                    ls = lines_by_sc[sc]
                    if stateful:
                        end = idx + len(ls)
                        for ln in ls:
                            o = json.loads(ln)
                            o["end"] = end
                            f.write(json.dumps(o, separators=(",", ":")) + "\n")
                    else:
                        f.writelines(ls)
                    idx += len(ls)
            files.append(p)
        inv = ""
        if invariants:
            inv = "INVARIANTS " + " ".join(invariants) + "\n"

        def run(i):
            cfg = "SPECIFICATION %s\nCONSTANT TraceFile = \"%s\"\n%s%sCHECK_DEADLOCK FALSE\n" % (
                spec_name, files[i], constants, inv)
            return self.tlc(module, cfg, name="%s_val%d" % (module, i), workers=1, timeout=timeout, dfs=dfs, heap="3g")

        accepted = set()
        with ThreadPoolExecutor(max_workers=min(shards, NCPU)) as ex:
            for r in ex.map(run, range(len(files))):
                accepted |= r.ok
        return accepted, scs, lines_by_sc

    # ------------------------------------------------------------ violations
    def violation(self, what, replay_obj):
        os.makedirs(os.path.join(EVID, "replay"), exist_ok=True)
        n = len(self.violations) + 1
        path = os.path.join(EVID, "replay", "%s-%d.json" % (self.pid, min(n, 25)))
        if n <= 25:   # at most 25 replay files per run; every violation is still counted
            with open(path, "w") as f:
                json.dump({"property": self.pid, "what": what, "seed": self.seed, "tier": self.tier, **replay_obj}, f, indent=1)
        self.violations.append({"what": what, "replay": path})
        return path

    def known(self, finding, what):
        if finding["id"] not in self.known_hit:
            self.known_hit.append(finding["id"])
            print("KNOWN-FINDING: property=%s %s (%s)" % (self.pid, finding["what"], finding["id"]))

    # --------------------------------------------------------------- finish
    def finish(self, level, coverage, assumptions=None, extra=None):
        states = sum(r["generated"] for r in self.tlc_runs)
        trans = states
        cov = dict(coverage)
        if level == "model_checking":
            cov.setdefault("states", max(1, sum(r["distinct"] for r in self.tlc_runs)))
            cov.setdefault("transitions", max(1, trans))
        cov["tlc_runs"] = self.tlc_runs[:40]
        cov["tlc_runs_total"] = len(self.tlc_runs)
        cov["known_findings_hit"] = self.known_hit
        cov["notes"] = self.notes
        try:
            sys.path.insert(0, os.path.join(ROOT, "checks"))
            from additions import ADDITIONS
            if self.pid in ADDITIONS:
                cov["rule_additions"] = ADDITIONS[self.pid]
        except Exception:
            pass
        ev = {"property_id": self.pid, "tier": self.tier, "seed": self.seed, "level": level, "coverage": cov,
              "assumptions": assumptions or [], "wall_s": round(time.time() - self.t0, 2),
              "violations": len(self.violations)}
        if extra:
            ev.update(extra)
        os.makedirs(EVID, exist_ok=True)
        tmp = os.path.join(EVID, ".%s.json.tmp" % self.pid)
        with open(tmp, "w") as f:
            json.dump(ev, f, indent=1, default=str)
        os.replace(tmp, os.path.join(EVID, "%s.json" % self.pid))
        for v in self.violations[:20]:
            print("VIOLATION property=%s replay=%s" % (self.pid, v["replay"]))
            print("  " + v["what"][:400])
        if not self.keep:
            shutil.rmtree(self.work, ignore_errors=True)
        else:
            print("work dir kept:", self.work)
        code = 1 if self.violations else 0
        print("%s %s tier=%s seed=%d wall=%.1fs violations=%d known=%s" % (
            self.pid, "FAIL" if code else "PASS", self.tier, self.seed, time.time() - self.t0, len(self.violations),
            ",".join(self.known_hit) or "-"))
        return code

    def cleanup(self):
        if not self.keep:
            shutil.rmtree(self.work, ignore_errors=True)


def load_findings(pid):
    """Open findings of a property from /verif/KNOWN_FINDINGS (fixed: lines suppress nothing)."""
    path = os.path.join(ROOT, "KNOWN_FINDINGS")
    out = []
    if os.path.exists(path):
        with open(path) as f:
            for line in f:
                line = line.strip()
                if not line.startswith("finding:"):
                    continue
                m = re.match(r"finding:\s+property=(\S+)\s+id=(\S+)\s+signature=(.*?)\s+what=(.*)$", line)
                if m and m.group(1) == pid:
                    out.append({"property": pid, "id": m.group(2), "signature": json.loads(m.group(3)), "what": m.group(4)})
    return out


def write_jsonl(path, objs):
    with open(path, "w") as f:
        for o in objs:
            f.write((o if isinstance(o, str) else json.dumps(o, separators=(",", ":"))) + "\n")


def read_jsonl(path):
    out = []
    with open(path, errors="replace") as f:
        for line in f:
            if line.strip():
                out.append(json.loads(line))
    return out


def main(pid, fn):
    """Runs check function fn(ctx) with the common error policy."""
    ctx = Ctx(pid)
    try:
        code = fn(ctx)
    except Inconclusive as e:
        print("INCONCLUSIVE property=%s: %s" % (pid, e))
        if ctx.violations:
            # stages that did complete observed the real code breaking the property: those verdicts stand, although a later
            # stage could not be carried out (a change that breaks the property may well break a driver too)
            ctx.notes.append("a later stage was inconclusive: %s" % str(e)[:500])
            sys.exit(ctx.finish("model_checking", {
                "traces_validated_against_impl": len(ctx.violations), "evaluations": len(ctx.violations), "distinct_nontrivial": len(ctx.violations),
                "rule": "PARTIAL RUN: only the stages completed before an inconclusive stage are reported; each violation was observed on the real code",
                "samples": [v["what"][:300] for v in ctx.violations[:3]], "exhaustive": False}))
        ctx.cleanup()
        sys.exit(2)
    except subprocess.TimeoutExpired as e:
        print("INCONCLUSIVE property=%s: timeout %s" % (pid, e))
        ctx.cleanup()
        sys.exit(2)
    sys.exit(code)
