"""C09 - TLS client-certificate gate holds and failed handshakes are contained."""
import json
import os
import connlib
import vlib


def run(ctx):
    ctx.build()
    mc = ctx.tlc("MC_C09", "MC_C09.cfg", name="MC_C09", workers=4, timeout=600)
    scenarios = [json.loads(s) for s in mc.scenarios]
    if ctx.tier != "thorough":
        # quick: every complete-handshake scenario in position "between", every fault once per position
        scenarios = [s for s in scenarios if s["pos"] == "between" or s["fault"] != "none" or s["cred"] in ("ok", "nocert", "intermediate")]
    # the application's own tls.Config (SetTLSConfig) instead of certificate files, with and without verification of the client
    # certificate: whatever the clients present, the server goes on serving, and the name rule reads the client's own certificate
    scenarios += [{"rule": rule, "pass": False, "cred": cred, "fault": "none", "pos": "between", "custom": custom}
                  for custom in ("anycert", "request", "verify") for rule in (False, True)
                  for cred in ("ok", "selfsigned", "foreignca", "nocert", "wrongname", "expired", "intermediate")]
    if ctx.replay:
        scenarios = [json.load(open(ctx.replay))["scenario"]]
    scen = os.path.join(ctx.work, "c09_scen.jsonl")
    trace = os.path.join(ctx.work, "c09.ndjson")
    killed = set()
    for attempt in range(12):
        vlib.write_jsonl(scen, scenarios)
        p = ctx.harness(["tlsgate", "--scenarios", scen, "--out", trace], timeout=3000, ok_codes=(0, 2))
        if p.returncode == 0:
            break
        # the server runs inside the harness process: a Go panic / fatal error here IS the server process dying
        started = sum(1 for ln in open(trace, errors="replace") if '"ev":"scenario"' in ln) if os.path.exists(trace) else 0
        s = scenarios[max(0, started - 1)]
        key = (s["cred"], s["fault"], s.get("custom", ""))
        if key not in killed:
            killed.add(key)
            ctx.violation("the server process died during a TLS scenario (cred=%s fault=%s rule=%s pass=%s pos=%s custom=%s): %s" % (
                s["cred"], s["fault"], s["rule"], s["pass"], s["pos"], s.get("custom", "-"), " | ".join(p.stderr.strip().split("\n")[:3])[-400:]),
                {"scenario": s, "stderr": p.stderr[-3000:]})
        scenarios = [x for x in scenarios if (x["cred"], x["fault"], x.get("custom", "")) != key]      # the rest is still judged
        if not scenarios:
            break
    ctx.stage("harness")
    accepted, scs, lines = ctx.validate(trace, "TraceTLS", stateful=True, constants="CONSTANT Diagnose = FALSE\n")
    ctx.stage("validate")
    groups = {}
    for sc in scs:
        if sc not in accepted:
            idx, ev = connlib.diagnose(ctx, lines[sc], "TraceTLS") if len(groups) < 30 else (0, {"ev": "undiagnosed"})
            s = scenarios[sc - 1]
            key = "%s: cred=%s fault=%s rule=%s pass=%s -> %s" % (ev.get("ev"), s["cred"], s["fault"], s["rule"], s["pass"],
                                                              json.dumps({k: v for k, v in ev.items() if k not in ("sc", "end", "ev")})[:200])
            groups.setdefault(key, []).append(sc)
    for key, members in sorted(groups.items()):
        sc = members[0]
        ctx.violation("%s [%d scenario(s)]" % (key, len(members)), {"scenario": scenarios[sc - 1], "trace": [json.loads(x) for x in lines[sc]]})
    samples = [{"scenario": scenarios[sc - 1], "events": [json.loads(x) for x in lines[sc] if '"ev":"tlsclient"' in x or '"ev":"probe"' in x][:4],
                "accepted": sc in accepted} for sc in scs[2:80:30]]
    faulty = sum(1 for s in scenarios if not (s["cred"] == "ok" and s["fault"] == "none"))
    return ctx.finish("model_checking", {
        "states": mc.distinct, "transitions": mc.generated,
        "traces_validated_against_impl": len(scs), "evaluations": len(scs), "distinct_nontrivial": faulty,
        "rule": "MC_C09 enumerates the finite space {no rule, name rule, rule+password} x {plain bytes, no certificate, self-signed, foreign CA, "
                "expired, right CA wrong name, right name only on an intermediate, right CA right name} x {complete, abort after ClientHello, stall, "
                "garbage} x {before, between, after well-behaved clients} (impossible combinations removed) and checks the admission policy; each "
                "scenario runs against a real server with a plain and a TLS port (certificates minted at run time): per client the handshake, the "
                "handler calls attributed to its address and PING/SET are recorded, and after each faulty client a fresh valid TLS client and a plain "
                "client must be served (while a stalled handshake is still pending). non-trivial = scenarios with a client that must be refused or "
                "a handshake fault",
        "samples": samples or [{"note": "replay"}], "exhaustive": ctx.tier == "thorough", "scenarios_in_space": len(mc.scenarios),
    }, assumptions=["X.509 path validation and TLS record processing are crypto/tls and trusted", "a TLS 1.3 client may see its own handshake "
                    "complete before the server rejects its certificate; refusal is judged by zero handler calls, no reply and disconnection"])
