"""C15 - Start/Stop/Restart leave the server in the state the call promises."""
import json
import os
import random
from concurrent.futures import ThreadPoolExecutor
import connlib
import cmdlib
import vlib


def features(script):
    """Coarse shape of a script, used to spread the replayed sample over the interesting orderings."""
    f = []
    stops = starts = 0
    for st in script:
        if st[0] == "call":
            if st[1] in ("Stop", "Restart"):
                stops += 1
            if st[1] == "Start":
                starts += 1
            f.append(st[1])
        elif st[0] == "release":
            f.append("rel:%s@%d.%d" % (st[1], starts, stops))
        else:
            f.append(st[0])
    return tuple(f)


def select(scripts, n, rng):
    by = {}
    for s in scripts:
        by.setdefault(features(s["script"]), []).append(s)
    keys = sorted(by)
    rng.shuffle(keys)
    out = []
    i = 0
    while len(out) < n and keys:
        k = keys[i % len(keys)]
        if by[k]:
            out.append(by[k].pop(rng.randrange(len(by[k]))))
        else:
            keys.remove(k)
            continue
        i += 1
    return out, len(by)


def run_scripts(ctx, scripts, name):
    scen = os.path.join(ctx.work, name + "_scen.jsonl")
    vlib.write_jsonl(scen, scripts)
    trace = os.path.join(ctx.work, name + ".ndjson")
    # the scripts are independent (one fresh server each): run them in parallel harness processes with disjoint port ranges
    n = max(1, min(8, len(scripts) // 50))
    parts = [os.path.join(ctx.work, "%s_part%d.ndjson" % (name, i)) for i in range(n)]
    with ThreadPoolExecutor(n) as ex:
        list(ex.map(lambda i: ctx.harness(["life", "--scenarios", scen, "--out", parts[i], "--shard", i, "--of", n], timeout=3600), range(n)))
    with open(trace, "wb") as out:
        for part in parts:
            with open(part, "rb") as f:
                out.write(f.read())
            os.remove(part)
    ctx.stage(name + "-harness")
    accepted, scs, lines = ctx.validate(trace, "TraceServer", stateful=True, constants="CONSTANT Diagnose = FALSE\n")
    ctx.stage(name + "-validate")
    return accepted, scs, lines


def run(ctx):
    thorough = ctx.tier == "thorough"
    ctx.build()
    # beside everything else (it mostly sleeps): connections on the plain and the TLS port that are quiet between two requests
    idle = None if ctx.replay else cmdlib.IdleProbe(ctx, [1000, 11000, 31000, 61000, 125000] if ctx.tier == "thorough" else [1000, 11000, 31000])
    # exhaustive with the script history (1 client, short programs): every maximal path is a script
    mc = ctx.tlc("MC_C15", "MC_C15_quick.cfg", name="MC_C15", workers=vlib.NCPU, timeout=3000)
    # exhaustive WITHOUT the history variable (2 clients, programs up to 6 calls): design-level invariants only
    big = ctx.tlc("MC_C15", "MC_C15_thorough.cfg", name="MC_C15_big", workers=vlib.NCPU, timeout=3000)
    # random maximal paths of that bigger model as scripts
    sim = ctx.tlc("MC_C15", "MC_C15_sim.cfg", name="MC_C15_sim", workers=1, timeout=3000, simulate="num=%d" % (30000 if thorough else 1000), depth=90)
    variant = ctx.tlc("MC_C15", "MC_C15_variant.cfg", name="MC_C15_variant", workers=2, timeout=600, tolerate_violation=True)
    ctx.notes.append("spec mutation (an exiting loop closes the CURRENT listener): ServingWhileRunning -> %s" % (variant.violated or "NOT violated"))
    if not variant.violated:
        raise vlib.Inconclusive("the model variant with the wrong close target does not violate ServingWhileRunning (vacuous model)")
    # the TLS handshake as a state of its own (the client drives it and may never finish it): with the connection manager
    # knowing the handshaking transports Stop leaves nothing behind; without (the code before the repair) TLC shows what stays
    hs = ctx.tlc("MC_C15", "MC_C15_hs.cfg", name="MC_C15_hs", workers=vlib.NCPU, timeout=1200)
    hsv = ctx.tlc("MC_C15", "MC_C15_hs_noguard.cfg", name="MC_C15_hs_noguard", workers=2, timeout=600, tolerate_violation=True)
    ctx.notes.append("handshake model: %d distinct states hold StopPostcondition; without the handshake guard -> %s" % (hs.distinct, hsv.violated or "NOT violated"))
    if not hsv.violated:
        raise vlib.Inconclusive("the model without the handshake guard does not violate StopPostcondition (vacuous model)")
    scripts = [json.loads(s) for s in mc.scenarios]
    # the same lifecycle with a plain AND a TLS listener and a client of either kind (its handshake is one more parked step)
    mct = ctx.tlc("MC_C15", "MC_C15_tls.cfg", name="MC_C15_tls", workers=vlib.NCPU, timeout=3000)
    tls_scripts = [json.loads(s) for s in mct.scenarios]
    rng = random.Random(ctx.seed)
    if ctx.replay:
        chosen, nshapes = [json.load(open(ctx.replay))["scenario"]], 1
    else:
        chosen, nshapes = select(scripts, 20000 if thorough else 2500, rng)
        tsel, tshapes = select([t for t in tls_scripts if any(st[0] == "dial" and st[2] == "tls" for st in t["script"])], 6000 if thorough else 600, rng)
        chosen += tsel
        nshapes += tshapes
        ssel, sshapes = select([json.loads(x) for x in sim.scenarios], 30000 if thorough else 1000, rng)
        chosen += ssel
        nshapes += sshapes
    ctx.stage("generate")
    # Stop in awkward company (real sockets, fresh subprocess): connections open, TLS connections their clients reset a moment
    # ago, a client blocked in a large unread reply, and - in a second life - a port disabled through CONFIG SET while running
    if not ctx.replay:
        ctrace = os.path.join(ctx.work, "c15_stop.ndjson")
        ctx.harness(["churn", "--out", ctrace, "--cycles", 2, "--inflight", 4, "--seed", ctx.seed], timeout=600)
        cacc, cs2, cl2 = ctx.validate(ctrace, "TraceServer", stateful=True, shards=1, constants="CONSTANT Diagnose = FALSE\n")
        if cs2[0] not in cacc:
            idx, ev = connlib.diagnose(ctx, cl2[cs2[0]], "TraceServer")
            ctx.violation("Stop with connections in awkward states: observation not allowed by TraceServer: %s" % json.dumps(
                {k: v for k, v in ev.items() if k not in ("sc", "end")})[:400], {"cmd": "vharness churn --cycles 2 --inflight 4 --seed %d" % ctx.seed, "event": ev})
        ctx.stage("stop-scenarios")
    accepted, scs, lines = run_scripts(ctx, chosen, "c15")
    infeasible = 0
    groups = {}
    for sc in scs:
        if any('"ev":"infeasible"' in l for l in lines[sc]):
            infeasible += 1
    rejected = sorted((sc for sc in scs if sc not in accepted), key=lambda s: len(lines[s]))
    for n, sc in enumerate(rejected):
        # the first rejected event is located for the 40 shortest rejected scripts; the rest are reported as one group
        idx, ev = connlib.diagnose(ctx, lines[sc], "TraceServer") if n < 40 else (0, {"ev": "undiagnosed"})
        key = json.dumps({k: ev.get(k) for k in ("ev", "kind", "where", "state", "dialed", "served", "ok", "conns", "goroutines", "err", "call") if k in ev})
        groups.setdefault(key, []).append(sc)
    if infeasible == len(scs):
        raise vlib.Inconclusive("every script was infeasible: the schedule driver is dead")
    for key, members in sorted(groups.items(), key=lambda kv: -len(kv[1])):
        sc = min(members, key=lambda s: len(lines[s]))
        ctx.violation("observation not allowed by TraceServer: %s [%d script(s)] script: %s" % (key, len(members), json.dumps(chosen[sc - 1]["script"])[:300]),
                      {"scenario": chosen[sc - 1], "count": len(members), "trace": [json.loads(x) for x in lines[sc]][:120]})
    samples = [{"program": chosen[sc - 1]["prog"], "script": chosen[sc - 1]["script"][:14], "accepted": sc in accepted} for sc in scs[1:400:150]]
    nidle = idle.finish() if idle else 0
    return ctx.finish("model_checking", {
        "states": mc.distinct + big.distinct + mct.distinct, "transitions": mc.generated + big.generated + mct.generated,
        "traces_validated_against_impl": len(scs), "evaluations": len(scs), "distinct_nontrivial": nshapes,
        "rule": "Server.tla (listener generations, accept loops, registration guard) explored by TLC for every interleaving of the controller "
                "programs with loop and connection steps; invariants ServingWhileRunning, RegistryExact, StopPostcondition hold for the intended "
                "design and ServingWhileRunning is violated by the variant in which an exiting loop closes the current listener. Every maximal "
                "path is a script; a seeded sample spread over the distinct orderings of calls and releases is replayed on a real loopback server "
                "whose goroutines are parked at the verif schedule points and released in script order; probes and final observations are "
                "judged by TraceServer.tla. distinct = distinct call/release orderings in the model's script set",
        "idle_connections_probed": nidle,
        "samples": samples or [{"note": "replay"}], "exhaustive": False, "model_scripts": len(scripts) + len(tls_scripts), "replayed": len(scs),
        "infeasible_scripts": infeasible,
    }, assumptions=["'no server goroutine remains' is judged after the script released every gate and the server settled (bounded wait), not at "
                    "the instant Stop returns", "probe connections come from 127.0.0.2 and are never gated"])
