"""C18 - the bundled example store returns what was stored."""
import json
import connlib
import storelib
import vlib


def run(ctx):
    thorough = ctx.tier == "thorough"
    ctx.build()
    if ctx.replay:
        scenarios = [json.load(open(ctx.replay))["scenario"]]
        counts = {}
    else:
        scenarios, counts = storelib.programs(ctx, "example", 2, thorough, 2500 if thorough else 60, 40)
    ctx.stage("generate")
    accepted, scs, lines = connlib.run_scenarios(ctx, scenarios, "c18")
    groups = connlib.report(ctx, accepted, scs, lines, None, max_diag=80)
    connlib.violations_from_groups(ctx, groups, lines, lambda sc: scenarios[sc // 10000 - 1], known_matcher=lambda sig, m, l: match_known(ctx, sig, m, l))
    shapes = set()
    nreq = 0
    for sc in scs:
        names = connlib.request_names(lines[sc])
        nreq += len(names)
        shapes.add(tuple(n.split(" ")[0] for n in names))
    samples = [{"program": connlib.request_names(lines[sc])[:12], "accepted": sc in accepted} for sc in scs[11:8000:3999]]
    return ctx.finish("model_checking", {
        "traces_validated_against_impl": len(scs), "evaluations": len(scs), "distinct_nontrivial": len(shapes),
        "rule": "MC_Store enumerates, per data type (string, hash, list, set, sorted set, each with the generic commands), every program up to "
                "length 2 over a pool of 1-2 keys, 2 fields / 3 members, 3 values (one CRLF-bearing) and small integers, and TLC simulation "
                "adds random programs of length 40 over two keys; while generating, TLC runs each program on RedisModel (sanity invariants). "
                "Each program runs against the bundled example server through the real connection loop and TraceConn compares EVERY reply with "
                "RedisModel!Exec (bag/pair comparison where Redis leaves order open). distinct = distinct command-name sequences",
        "samples": samples or [{"note": "replay"}], "exhaustive": True, "requests_checked": nreq, **counts,
    }, assumptions=["no expiry; each key is used with one data type; integer scores; LPOP/RPOP with an explicit count of 1, SET ... NX (vs SETNX) "
                    "and ZADD option flags are not generated (the handler interface cannot express the Redis reply difference)"])


def match_known(ctx, sig, members, lines):
    for f in ctx.findings:
        s = f["signature"]
        if all(any(s.get("command", "") == n.split(" ")[0] for n in connlib.request_names(lines[sc])) for sc in members) and s.get("event", "") in sig[1]:
            return f
    return None
