"""C18 - the bundled example store returns what was stored."""
import json
import connlib
import storelib
import vlib


def big_collections():
    """Collections far larger than the generator's pools (200 elements): whatever a store switches to beyond some size
    (an index, another representation) has to behave like the small case under removals in every order."""
    from cmdlib import tok
    R = lambda name, *a: {"cls": "c18", "name": name, "args": list(a)}
    S = lambda x: tok("str", x)
    I = lambda n: tok("int", n=n)
    ms = ["m%03d" % i for i in range(200)]
    orders = {"last-first": list(reversed(ms)), "first-first": list(ms), "middle-out": ms[100:] + ms[:100],
              "stride": [ms[(i * 37) % 200] for i in range(200)]}
    out = []
    scen = lambda reqs: {"handler": "example", "tracer": False, "nconns": 1, "model": True,
                         "steps": [{"c": 0, "op": "send", "chunking": "perreq", "reqs": reqs}]}
    for oname, order in sorted(orders.items()):
        # sets
        reqs = [R("SADD", S("sa"), *[S(m) for m in ms[:100]]), R("SADD", S("sa"), *[S(m) for m in ms[50:]]), R("SCARD", S("sa"))]
        for i, m in enumerate(order[:140]):
            reqs.append(R("SREM", S("sa"), S(m)))
            if i % 10 == 0:
                reqs += [R("SISMEMBER", S("sa"), S(m)), R("SCARD", S("sa")), R("SMEMBERS", S("sa")), R("SREM", S("sa"), S(m))]
        reqs += [R("SADD", S("sa"), S(order[0]), S(order[1])), R("SMEMBERS", S("sa")), R("SCARD", S("sa"))]
        out.append(scen(reqs))
        # hashes
        reqs = [R("HSET", S("ha"), S(m), S("v%d" % (i % 3 + 1))) for i, m in enumerate(ms[:150])] + [R("HLEN", S("ha"))]
        for i, m in enumerate([x for x in order if x in ms[:150]][:110]):
            reqs.append(R("HDEL", S("ha"), S(m)))
            if i % 10 == 0:
                reqs += [R("HGET", S("ha"), S(m)), R("HLEN", S("ha")), R("HGETALL", S("ha")), R("HDEL", S("ha"), S(m))]
        out.append(scen(reqs))
        # sorted sets
        reqs = [R("ZADD", S("za"), *[x for i, m in enumerate(ms[:150]) for x in (I((i * 7) % 50), S(m))]), R("ZCARD", S("za"))]
        for i, m in enumerate([x for x in order if x in ms[:150]][:110]):
            reqs.append(R("ZREM", S("za"), S(m)))
            if i % 10 == 0:
                reqs += [R("ZSCORE", S("za"), S(m)), R("ZCARD", S("za")), R("ZRANGE", S("za"), I(0), I(-1)), R("ZREM", S("za"), S(m))]
        out.append(scen(reqs))
    # lists
    reqs = [R("RPUSH", S("la"), *[S(m) for m in ms[:150]]), R("LPUSH", S("la"), *[S(m) for m in ms[150:]]), R("LLEN", S("la"))]
    for i in range(170):
        reqs.append(R("LPOP" if i % 3 else "RPOP", S("la")))
        if i % 20 == 0:
            reqs += [R("LLEN", S("la")), R("LRANGE", S("la"), I(0), I(-1)), R("LINDEX", S("la"), I(i % 7))]
    out.append(scen(reqs))
    return out


def run(ctx):
    thorough = ctx.tier == "thorough"
    ctx.build()
    if ctx.replay:
        scenarios = [json.load(open(ctx.replay))["scenario"]]
        counts = {}
    else:
        scenarios, counts = storelib.programs(ctx, "example", 2, thorough, 2500 if thorough else 60, 40)
        big = big_collections()
        counts["big_collection_scenarios"] = len(big)
        scenarios += big
    ctx.stage("generate")
    accepted, scs, lines = connlib.run_scenarios(ctx, scenarios, "c18")
    groups = connlib.report(ctx, accepted, scs, lines, None, max_diag=80)
    connlib.violations_from_groups(ctx, groups, lines, lambda sc: scenarios[sc // 10000 - 1], known_matcher=lambda sig, m, l: match_known(ctx, sig, m, l))
    shapes = set()
    nreq = 0
    for sc in scs:
        names = connlib.request_names(lines[sc])
        nreq += len(names)
        shapes.add(tuple(n.split(" ")[0] for n in names))
    samples = [{"program": connlib.request_names(lines[sc])[:12], "accepted": sc in accepted} for sc in scs[11:8000:3999]]
    return ctx.finish("model_checking", {
        "traces_validated_against_impl": len(scs), "evaluations": len(scs), "distinct_nontrivial": len(shapes),
        "rule": "MC_Store enumerates, per data type (string, hash, list, set, sorted set, each with the generic commands), every program up to "
                "length 2 over a pool of 1-2 keys, 2 fields / 3 members, 3 values (one CRLF-bearing) and small integers, and TLC simulation "
                "adds random programs of length 40 over two keys; while generating, TLC runs each program on RedisModel (sanity invariants). "
                "Each program runs against the bundled example server through the real connection loop and TraceConn compares EVERY reply with "
                "RedisModel!Exec (bag/pair comparison where Redis leaves order open). distinct = distinct command-name sequences",
        "samples": samples or [{"note": "replay"}], "exhaustive": True, "requests_checked": nreq, **counts,
    }, assumptions=["no expiry; each key is used with one data type; integer scores; LPOP/RPOP with an explicit count of 1, SET ... NX (vs SETNX) "
                    "and ZADD option flags are not generated (the handler interface cannot express the Redis reply difference)"])


def match_known(ctx, sig, members, lines):
    for f in ctx.findings:
        s = f["signature"]
        if all(any(s.get("command", "") == n.split(" ")[0] for n in connlib.request_names(lines[sc])) for sc in members) and s.get("event", "") in sig[1]:
            return f
    return None
