"""C03 - every command gets exactly one reply, in order, without needing more input."""
import json
import connlib
import cmdlib
import vlib

QUICK = dict(pipes="MC_C03_quick.cfg", cmds="MC_Cmd_quick.cfg", cmd_sample=1)
THOROUGH = dict(pipes="MC_C03_thorough.cfg", cmds="MC_Cmd_thorough.cfg", cmd_sample=1)

TOK0 = {"k": "str", "s": "", "n": 0, "big": "", "f": "", "fs": "", "ex": False, "w": "", "cs": ""}


def tok(k, s):
    return dict(TOK0, k=k, s=s)


def wrap_vector(v, tracer=False):
    """ECHO t1, X, ECHO t2 in one chunk: X must be answered exactly once and not disturb its neighbours."""
    return {"handler": "rec", "tracer": tracer, "nconns": 1, "steps": [{"c": 0, "op": "send", "chunking": "whole", "reqs": [
        {"cls": "echo", "name": "ECHO", "args": [tok("str", "t1")]},
        {"cls": v["st"], "name": v["name"], "args": v["args"]},
        {"cls": "echo", "name": "ECHO", "args": [tok("str", "t2")]}]}]}


def big_requests():
    """Requests with far more elements than any buffer or pre-sized slice the server may use (one reply each, nothing left over)."""
    out = []
    ks = [tok("key", "k1"), tok("key", "k2"), tok("key", "m1"), tok("key", "f1")]
    vs = [tok("str", "v1"), tok("str", "v2")]
    for n in (1022, 1023, 1024, 1025, 1600, 4100):
        out.append({"st": "well", "name": "DEL", "args": [ks[i % 4] for i in range(n)]})
    for n in (511, 512, 513, 1100):
        out.append({"st": "well", "name": "MSET", "args": [x for i in range(n) for x in (ks[i % 4], vs[i % 2])]})
    for n in (1023, 1024, 1500):
        out.append({"st": "well", "name": "RPUSH", "args": [ks[0]] + [vs[i % 2] for i in range(n)]})
        out.append({"st": "well", "name": "SADD", "args": [ks[0]] + [vs[i % 2] for i in range(n)]})
    out.append({"st": "well", "name": "HMSET", "args": [ks[0]] + [x for i in range(700) for x in (ks[i % 4], vs[i % 2])]})
    out.append({"st": "well", "name": "MGET", "args": [ks[i % 4] for i in range(1300)]})
    out.append({"st": "ill", "name": "GET", "args": [ks[i % 4] for i in range(1300)]})
    return out


def pattern_stress():
    """KEYS / SCAN MATCH with many '*' groups against a long key that almost matches: a matcher that backtracks over every
    '*' needs time exponential in the number of groups (the connection stalls); the specification matches in polynomial time."""
    key = "a" * 60
    pats = ["*a" * 24 + "*b", "*a" * 24 + "*", "a*" * 20 + "b", "?*" * 16 + "b", "*" * 40 + "b", "*a" * 12 + "?" * 10 + "*b", "*a*" * 15 + "c*"]
    out = []
    for handler in ("ref", "example"):
        for i, pat in enumerate(pats):
            x = ({"cls": "well", "name": "KEYS", "args": [tok("str", pat)]} if i % 3 else
                 {"cls": "well", "name": "SCAN", "args": [dict(tok("int", ""), n=0), dict(tok("word", ""), w="MATCH"), tok("str", pat)]})
            out.append({"handler": handler, "tracer": False, "nconns": 1, "steps": [{"c": 0, "op": "send", "chunking": "whole", "reqs": [
                {"cls": "setup", "name": "SET", "args": [tok("key", key), tok("str", "v1")]},
                {"cls": "echo", "name": "ECHO", "args": [tok("str", "t1")]}, x,
                {"cls": "echo", "name": "ECHO", "args": [tok("str", "t2")]}]}]})
    return out


def run(ctx):
    P = THOROUGH if ctx.tier == "thorough" else QUICK
    ctx.build()
    # beside everything else (it mostly sleeps): connections on the plain and the TLS port that are quiet between two requests
    idle = None if ctx.replay else cmdlib.IdleProbe(ctx, [1000, 11000, 31000, 61000, 125000] if ctx.tier == "thorough" else [1000, 11000, 31000])
    if ctx.replay:
        scenarios = [json.load(open(ctx.replay))["scenario"]]
        npipes = ncmds = 0
    else:
        pipes = ctx.tlc("MC_C03", P["pipes"], name="MC_C03", workers=vlib.NCPU, timeout=1800)
        cmds = ctx.tlc("MC_Cmd", P["cmds"], name="MC_Cmd", workers=vlib.NCPU, timeout=1800)
        scenarios = [json.loads(s) for s in pipes.scenarios]
        npipes = len(scenarios)
        vecs = [json.loads(s) for s in cmds.scenarios]
        scenarios += [wrap_vector(v) for v in vecs]
        ncmds = len(vecs)
        scenarios += [wrap_vector(v) for v in big_requests()]
        # vectors with a 64-bit edge value also against stores that hold something (the recording handler returns at once; a
        # loop over the stored elements bounded only by the client's number would only run with a real store behind it)
        nstore = 0
        for v in vecs:
            if v["st"] not in ("well", "other") or not any(a.get("big") for a in v["args"]):
                continue
            k1 = tok("key", "k1")
            setup = {"Z": {"cls": "setup", "name": "ZADD", "args": [k1, dict(tok("int", ""), n=1), tok("key", "m1"), dict(tok("int", ""), n=2), tok("key", "m2")]},
                     "L": {"cls": "setup", "name": "RPUSH", "args": [k1, tok("str", "v1"), tok("str", "v2")]},
                     "R": {"cls": "setup", "name": "RPUSH", "args": [k1, tok("str", "v1"), tok("str", "v2")]}}.get(v["name"][0])
            for handler in ("ref", "example"):
                sc = wrap_vector(v)
                sc["handler"] = handler
                if setup:
                    sc["steps"][0]["reqs"].insert(0, setup)
                scenarios.append(sc)
                nstore += 1
        scenarios += pattern_stress()
    ctx.stage("generate")
    accepted, scs, lines = connlib.run_scenarios(ctx, scenarios, "c03")
    groups = connlib.report(ctx, accepted, scs, lines, None)
    connlib.violations_from_groups(ctx, groups, lines, lambda sc: scenarios[sc // 10000 - 1])
    shapes = set()
    samples = []
    for sc in scs:
        names = connlib.request_names(lines[sc])
        shapes.add(tuple(n.split(" ")[0] + ":" + str(len(n.split(" "))) for n in names))
        if len(samples) < 3 and sc % 7919 == 3:
            samples.append({"requests": names, "events": len(lines[sc]), "accepted": sc in accepted})
    nidle = idle.finish() if idle else 0
    return ctx.finish("model_checking", {
        "traces_validated_against_impl": len(scs),
        "evaluations": len(scs),
        "distinct_nontrivial": len(shapes),
        "rule": "pipelines over outcome classes enumerated by TLC (MC_C03: all sequences up to the tier's length over "
                "{echo,get,argerr,unknown,handler-error,handler-nil,handler-msg+err,QUIT,non-array frames} and the password "
                "variant, x chunkings whole/1-byte/per-request/every 2-way split/complete requests plus a proper prefix of the next), requests of 1022..4100 elements, and every registered command x every argument "
                "vector of MC_Cmd placed between two ECHOs; distinct = distinct (command, arity) pipelines; all are non-trivial "
                "(each has at least one request whose reply must be paired)",
        "idle_connections_probed": nidle,
        "samples": samples or [{"requests": connlib.request_names(lines[scs[0]])}],
        "exhaustive": True, "pipelines": npipes, "command_vectors": ncmds,
    }, assumptions=["liveness is judged when the scripted transport's Read is called with an empty buffer (block event); "
                    "a watchdog of 3 s without block/return is a stall, confirmed by the goroutine dump showing the loop runnable",
                    "a reply frame may span several writes and a write may hold several frames; handler calls are attributed to requests when their reply frame completes"])
