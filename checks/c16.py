"""C16 - commands are atomic with respect to concurrent clients (linearizability)."""
import json
import os
import random
import vlib
import connlib
from cmdlib import tok

PRIMS = '{"GET", "SET", "SETNX", "GETSET", "DEL", "GETB", "SETB"}'
ALLK = '{"GET", "SET", "SETNX", "GETSET", "DEL", "INCR", "DECRBY", "APPEND", "MSETNX", "GETB", "SETB"}'
COMPOSITE = {"INCR", "DECR", "INCRBY", "DECRBY", "APPEND", "MSETNX"}


def cfg(kinds, triples, invs):
    return ("SPECIFICATION Spec\nCONSTANTS\n  Kinds = %s\n  Triples = %s\nINVARIANTS %s\nCHECK_DEADLOCK FALSE\n"
            % (kinds, "TRUE" if triples else "FALSE", " ".join(invs)))


def B(s):
    t = tok("str", s)
    return t


def free_programs(rng, n):
    """Free-running histories: 2..8 clients x <=4 operations over 1..3 keys."""
    out = []
    keys = ["ka", "kb", "kc"]
    for _ in range(n):
        nc = rng.randint(2, 8)
        nk = rng.randint(1, 3)
        progs = []
        for c in range(nc):
            p = []
            for _ in range(rng.randint(1, 4)):
                k = tok("key", rng.choice(keys[:nk]))
                v = tok("str", "v%d%d" % (c, len(p)))
                kind = rng.choice(["GET", "SET", "SETNX", "GETSET", "INCR", "DECRBY", "APPEND", "MSETNX", "DEL"])
                args = {"GET": [k], "SET": [k, v], "SETNX": [k, v], "GETSET": [k, v], "INCR": [k], "DECRBY": [k, tok("int", n=2)],
                        "APPEND": [k, v], "MSETNX": [k, v, tok("key", rng.choice(keys)), v], "DEL": [k]}[kind]
                p.append({"cls": "lin", "name": kind, "args": args})
            progs.append(p)
        out.append({"handler": "ref", "gate": False, "nconns": nc, "setup": [], "programs": progs})
    return out


def validate(ctx, trace, deviations, name):
    return ctx.validate(trace, "TraceLin", stateful=True, timeout=2400,
                        constants="CONSTANT Diagnose = FALSE\nCONSTANT Deviations = %s\n" % deviations)


def kinds_of(lines):
    out = []
    for ln in lines:
        if '"ev":"reqs"' in ln:
            out += [r["name"] for r in json.loads(ln)["reqs"]]
    return out


def run(ctx):
    thorough = ctx.tier == "thorough"
    ctx.build()
    # design level: single-primitive commands are atomic under every interleaving ...
    prim = ctx.tlc("MC_C16", cfg(PRIMS, thorough, ["AtomicOutcome", "Export"]), name="MC_C16_prims", workers=vlib.NCPU, timeout=1800)
    # ... and the derived read-modify-write commands are not (TLC finds the interleaving): documented, not a verdict
    design = ctx.tlc("MC_C16", cfg(ALLK, False, ["AtomicOutcome"]), name="MC_C16_design", workers=1, timeout=1800, tolerate_violation=True)
    ctx.notes.append("design level: AtomicOutcome over all command kinds -> %s" % (design.violated or "holds"))
    allk = ctx.tlc("MC_C16", cfg(ALLK, False, ["Export"]), name="MC_C16_all", workers=vlib.NCPU, timeout=1800)
    forced = [json.loads(s) for s in prim.scenarios + allk.scenarios]
    if thorough:
        tri = ctx.tlc("MC_C16", cfg('{"GET", "SET", "SETNX", "INCR", "APPEND", "MSETNX"}', True, ["Export"]), name="MC_C16_triples",
                      workers=vlib.NCPU, timeout=2400)
        tsc = tri.scenarios          # every triple schedule is explored by TLC at design level; a seeded sample of 6000 is forced
        if len(tsc) > 6000:
            tsc = random.Random(ctx.seed).sample(tsc, 6000)
        forced += [json.loads(s) for s in tsc]
    ex = [dict(s, handler="example") for s in forced[::7]]        # a sample against the bundled example store as well
    rng = random.Random(ctx.seed)
    free = free_programs(rng, 5000 if thorough else 300)
    # every client's first command on a fresh server at the same moment (2 clients, own keys: SET then GET must see it);
    # the schedule is not forced, so many fresh servers are needed (a check-then-store creation of the example store's
    # database lost a client's write on about 1 in 3000 of them); seven of eight against the bundled example store
    first = []
    for i in range(40000 if thorough else 12000):
        progs = [[{"cls": "lin", "name": "SET", "args": [tok("key", "k%d" % c), tok("str", "v%d%d" % (c, i % 7))]},
                  {"cls": "lin", "name": "GET", "args": [tok("key", "k%d" % c)]}] for c in range(2)]
        first.append({"handler": "example" if i % 8 else "ref", "gate": False, "nconns": 2, "setup": [], "programs": progs})
    # the example store's own primitives racing on one key (free-running, fresh servers): one client writes and reads back
    # its own values while another only changes the key's life time (EXPIRE never changes a value) or lists keys
    racing = []
    for i in range(2000 if thorough else 400):
        # (long programs on one server: the windows are a few instructions wide, only many overlapping calls find them)
        w = [x for j in range(25) for x in ({"cls": "lin", "name": "SET", "args": [tok("key", "ka"), tok("str", "v%02d" % j)]},
                                            {"cls": "lin", "name": "GET", "args": [tok("key", "ka")]})]
        o = [{"cls": "lin", "name": "EXPIRE", "args": [tok("key", "ka"), tok("int", n=1000)]} if (i + j) % 4 else
             {"cls": "lin", "name": "KEYS", "args": [tok("str", "s:star")]} for j in range(40)]
        racing.append({"handler": "example", "gate": False, "nconns": 2, "setup": [], "programs": [w, o]})
    scenarios = forced + ex + free + first + racing
    if ctx.replay:
        scenarios = [json.load(open(ctx.replay))["scenario"]]
    ctx.stage("generate")
    scen = os.path.join(ctx.work, "c16_scen.jsonl")
    vlib.write_jsonl(scen, scenarios)
    trace = os.path.join(ctx.work, "c16.ndjson")
    ctx.harness(["lin", "--scenarios", scen, "--out", trace], timeout=3600)
    ctx.stage("harness")
    accepted, scs, lines = validate(ctx, trace, "{}", "lin")
    ctx.stage("validate")
    rejected = [sc for sc in scs if sc not in accepted]
    known, unknown = [], []
    if rejected:
        # classify: is the history explained by the recorded deviation (derived commands run as primitive steps)?
        sub = os.path.join(ctx.work, "c16_rejected.ndjson")
        with open(sub, "w") as f:
            for sc in rejected:
                f.writelines(lines[sc])
        acc2, _, _ = validate(ctx, sub, '{"D23"}', "lin-dev")
        for sc in rejected:
            ks = kinds_of(lines[sc])
            if sc in acc2 and any(k in COMPOSITE for k in ks):
                known.append(sc)
            else:
                unknown.append(sc)
    ctx.stage("classify")
    d23 = [f for f in ctx.findings if f["signature"].get("deviation") == "D23"]
    if known:
        if d23:
            kinds = sorted(set(tuple(sorted(set(kinds_of(lines[sc])) & COMPOSITE)) for sc in known))
            ctx.known(d23[0], "%d non-linearizable histories, all explained by non-atomic %s" % (len(known), kinds[:6]))
        else:
            unknown += known
    groups = {}
    for sc in unknown:
        groups.setdefault(tuple(sorted(set(kinds_of(lines[sc])))), []).append(sc)
    for kinds, members in sorted(groups.items()):
        sc = min(members, key=lambda s: len(lines[s]))
        hist = [(json.loads(l)["ev"], json.loads(l).get("c"), bytes(json.loads(l).get("b", [])).decode("latin1") if '"ev":"write"' in l else
                 [r["name"] for r in json.loads(l).get("reqs", [])]) for l in lines[sc] if '"ev":"reqs"' in l or '"ev":"write"' in l]
        ctx.violation("history over %s is not linearizable (and not explained by a recorded finding) [%d]: %s" % (list(kinds), len(members), hist[:12]),
                      {"scenario": scenarios[sc - 1], "history": hist, "count": len(members)})
    overlapping = sum(1 for sc in scs if sum(1 for l in lines[sc] if '"ev":"sched"' in l and '"realized":true' in l) >= 2 or sc > len(forced) + len(ex))
    unreal = sum(1 for sc in scs for l in lines[sc] if '"ev":"sched"' in l and '"realized":false' in l)
    samples = []
    for sc in (known[:1] + [s for s in scs if s in accepted][:2]):
        samples.append({"commands": kinds_of(lines[sc]), "schedule": scenarios[sc - 1].get("schedule"), "linearizable": sc in accepted,
                        "explained_by_D23": sc in known})
    return ctx.finish("model_checking", {
        "states": prim.distinct + allk.distinct, "transitions": prim.generated + allk.generated,
        "traces_validated_against_impl": len(scs), "evaluations": len(scs), "distinct_nontrivial": overlapping,
        "rule": "forced schedules: MC_C16 enumerates, for every ordered pair (thorough: also triples) of command kinds over {GET SET SETNX GETSET DEL INCR "
                "DECRBY APPEND MSETNX} on one or two keys and three initial contents, EVERY interleaving of their primitive handler calls; a gate "
                "handler parks each primitive and the controller releases clients in that order (reference store, a sample also on the example "
                "store); free-running: seeded histories of 2..8 concurrent clients x <=4 commands over 1..3 keys. TLC searches a linearization "
                "of each recorded history against RedisModel (silent Linearize steps). non-trivial = histories with at least two overlapping "
                "commands",
        "samples": samples or [{"note": "none"}], "exhaustive": True,
        "forced_schedules": len(forced), "example_store_schedules": len(ex), "free_histories": len(free), "example_store_racing_histories": len(racing),
        "not_linearizable": len(rejected), "explained_by_known_finding": len(known), "unrealisable_schedule_steps": unreal,
    }, assumptions=["the response time of an operation is when the server wrote the reply (not later than the client's receipt), which only narrows "
                    "intervals on the safe side", "primitives of the reference store are serialised by its mutex; the example store is only "
                    "driven through the gate (one primitive at a time)"])
