"""C19 - connection resources are released however the connection ends."""
import json
import os
import connlib
import vlib
from cmdlib import tok, echo


def R(name, *args):
    return {"cls": "c19", "name": name, "args": list(args)}


def endings():
    """In-memory endings through the real connection loop: mode x position in a pipeline."""
    pre = {"first": [], "middle": [echo("t1")], "last": [echo("t1"), R("SET", tok("key", "k1"), tok("str", "v1")), R("GET", tok("key", "k1"))]}
    out = []
    bad = {"cls": "frame", "name": "", "args": [], "frame": list(b"*2\r\n$abc\r\n$1\r\nx\r\n")}
    nonarr = {"cls": "frame", "name": "", "args": [], "frame": list(b":12x\r\n")}
    for pos, reqs in pre.items():
        base = {"handler": "rec", "tracer": True, "nconns": 1}
        send = lambda extra, **kw: dict({"c": 0, "op": "send", "chunking": "perreq", "reqs": reqs + extra}, **kw)
        out.append(dict(base, steps=[send([echo("t2")]), {"c": 0, "op": "halfclose"}]))                       # FIN at a boundary
        out.append(dict(base, steps=[send([echo("t2")]), {"c": 0, "op": "fullclose"}]))                       # RST at a boundary
        out.append(dict(base, steps=[send([R("SET", tok("key", "k2"), tok("str", "s:bin"))], cutall=True, chunking="whole"), {"c": 0, "op": "halfclose"}]))  # FIN mid-request
        out.append(dict(base, steps=[send([R("SET", tok("key", "k2"), tok("str", "v2"))], cutall=True, chunking="whole"), {"c": 0, "op": "fullclose"}]))     # RST mid-request
        out.append(dict(base, steps=[send([R("QUIT"), echo("t3")])]))                                          # QUIT
        out.append(dict(base, steps=[send([bad, echo("t3")])]))                                                # malformed frame
        out.append(dict(base, steps=[send([nonarr, echo("t3")], chunking="bytes")]))
        out.append(dict(base, steps=[{"c": 0, "op": "wfail", "wfailat": 0}, send([echo("t2"), echo("t3")]), {"c": 0, "op": "fullclose"}]))                   # client stops reading, then goes away
        out.append(dict(base, steps=[send([echo("t2")]), {"c": 0, "op": "wfail", "wfailat": 3}, send([echo("t3"), echo("t4")]), {"c": 0, "op": "fullclose"}]))
        out.append(dict(base, requirepass="pw:exact", steps=[send([echo("t2")]), {"c": 0, "op": "halfclose"}]))  # unauthorized, then FIN
    return out


def run(ctx):
    thorough = ctx.tier == "thorough"
    ctx.build()
    scenarios = endings()
    if ctx.replay:
        scenarios = [json.load(open(ctx.replay))["scenario"]]
    accepted, scs, lines = connlib.run_scenarios(ctx, scenarios, "c19mem")
    groups = connlib.report(ctx, accepted, scs, lines, None)
    connlib.violations_from_groups(ctx, groups, lines, lambda sc: scenarios[sc // 10000 - 1])
    # real sockets: churn in fresh subprocesses (descriptor and goroutine counts belong to the server alone)
    runs = [(2000, 32), (2000, 16), (3000, 8), (3000, 32)] if thorough else [(120, 8), (120, 32), (60, 2)]
    churn_ok = 0
    cycles = 0
    conns = 0
    bad_obs = []
    sample_obs = []
    for i, (cyc, inflight) in enumerate(runs):
        trace = os.path.join(ctx.work, "churn%d.ndjson" % i)
        ctx.harness(["churn", "--out", trace, "--cycles", cyc, "--inflight", inflight, "--seed", ctx.seed * 100 + i], timeout=3000)
        acc, s2, l2 = ctx.validate(trace, "TraceServer", stateful=True, shards=1, constants="CONSTANT Diagnose = FALSE\n")
        evs = [json.loads(x) for x in l2[s2[0]]]
        base = [e for e in evs if e.get("kind") == "baseline"]
        ch = [e for e in evs if e.get("kind") == "churn"]
        cycles += len(ch)
        conns += sum(e["n"] for e in ch)
        if ch:
            sample_obs.append({"baseline": {k: base[0][k] for k in ("goroutines", "fds", "conns")}, "after_cycle": ch[-1]["cycle"],
                               "observed": {k: ch[-1][k] for k in ("goroutines", "fds", "conns", "not_closed")}, "modes_last_batch": ch[-1]["modes"]})
        if s2[0] in acc:
            churn_ok += 1
        else:
            idx, ev = connlib.diagnose(ctx, l2[s2[0]], "TraceServer")
            ctx.violation("churn run %d (cycles=%d inflight<=%d): observation not allowed: %s baseline=%s" % (
                i, cyc, inflight, json.dumps({k: v for k, v in ev.items() if k not in ("sc", "end")})[:300],
                json.dumps({k: base[0][k] for k in ("goroutines", "fds", "conns")}) if base else "?"),
                {"cmd": "vharness churn --cycles %d --inflight %d --seed %d" % (cyc, inflight, ctx.seed * 100 + i), "event": ev})
    ctx.stage("churn")
    shapes = set(tuple(connlib.request_names(lines[sc])) + (len(lines[sc]),) for sc in scs)
    return ctx.finish("model_checking", {
        "traces_validated_against_impl": len(scs) + len(runs), "evaluations": len(scs) + conns, "distinct_nontrivial": len(shapes),
        "rule": "in memory (TraceConn, every event judged): {FIN at a boundary, RST at a boundary, FIN/RST at EVERY byte offset inside a request, QUIT, "
                "malformed frame, non-array frame delivered bytewise, write failure before/after the first reply then close, unauthorized then FIN} x "
                "{first, middle, last position in a pipeline}: the loop must close the socket, deregister and return with no span open; on real sockets "
                "(TraceServer churn rule): fresh server subprocess, idle baseline of framework goroutines / descriptors / registry, then batches of "
                "1..N concurrent connections ending by FIN, FIN mid-request, RST, QUIT, malformed frame, unread replies + RST, TLS without certificate, "
                "TLS wrong name, TLS then FIN, stalled TLS handshake then close, idle FIN; after each batch the counts must equal the baseline and every "
                "client that must be hung up saw EOF; finally Stop with open connections. distinct = distinct in-memory ending scenarios",
        "samples": sample_obs[:2] or [{"note": "none"}], "exhaustive": False, "churn_runs_ok": churn_ok, "churn_cycles": cycles,
        "churn_connections": conns, "in_memory_scenarios": len(scs),
    }, assumptions=["descriptor and goroutine counts are measured by the harness and carried in the trace; the specification demands equality with the "
                    "baseline after a bounded settle wait (4 s)"])
