"""C05 - commands reach the handler with exactly the arguments the client sent."""
import json
import connlib
import cmdlib
import vlib
from cmdlib import tok


def two_conn_wrap(v):
    """The request arrives on connection 0 (database 2) while connection 1 selected database 5."""
    sel = lambda n: {"cls": "select", "name": "SELECT", "args": [tok("int", n=n)]}
    return {"handler": "rec", "tracer": False, "nconns": 2, "authdouble": v["name"] == "AUTH", "customexec": v["name"].upper() == "MYCMD",
            "steps": [{"c": 0, "op": "send", "reqs": [sel(2)]}, {"c": 1, "op": "send", "reqs": [sel(5)]},
                      {"c": 0, "op": "send", "reqs": [{"cls": "well", "name": v["name"], "args": v["args"]}, cmdlib.echo("t1")]},
                      {"c": 1, "op": "send", "reqs": [{"cls": "get", "name": "GET", "args": [tok("key", "k2")]}]}]}


EXTRA = [  # unknown commands, application executors, AUTH through the auth double, command-name case variants
    {"name": "FOOBAR", "args": [tok("str", "v1")]}, {"name": "get2", "args": []}, {"name": "GETX", "args": [tok("key", "k1")]},
    {"name": "MYCMD", "args": [tok("str", "v1"), tok("str", "s:bin")]}, {"name": "mycmd", "args": [tok("str", "s:crlf")]},
    {"name": "MyCmd", "args": []},
    {"name": "AUTH", "args": [tok("str", "pw:other")]}, {"name": "auth", "args": [tok("str", "u:bob"), tok("str", "pw:exact")]},
    {"name": "get", "args": [tok("key", "k1")]}, {"name": "Get", "args": [tok("key", "s:bin")]}, {"name": "gEt", "args": [tok("key", "s:empty")]},
    {"name": "mset", "args": [tok("key", "k1"), tok("str", "v1"), tok("key", "k1"), tok("str", "v2"), tok("key", "k2"), tok("str", "s:bin")]},
    {"name": "hmset", "args": [tok("key", "k1"), tok("key", "f1"), tok("str", "v1"), tok("key", "f1"), tok("str", "s:crlf")]},
    {"name": "zadd", "args": [tok("key", "k1"), tok("float", f="1.5"), tok("key", "m1"), tok("float", f="-inf"), tok("key", "m2"), tok("int", n=2), tok("key", "m1")]},
    {"name": "lpush", "args": [tok("key", "k1"), tok("str", "v1"), tok("str", "v1"), tok("str", "s:nul"), tok("str", "s:empty")]},
]


BIG = [  # arguments at and beyond 64 KiB, several in one request and in consecutive requests (same and different lengths)
    {"name": "SET", "args": [tok("key", "s:big64a"), tok("str", "s:big64b")]},
    {"name": "mset", "args": [tok("key", "k1"), tok("str", "s:big64a"), tok("key", "k2"), tok("str", "s:big64b"), tok("key", "k3"), tok("str", "s:big70")]},
    {"name": "MYCMD", "args": [tok("str", "s:big64a"), tok("str", "s:big64b"), tok("str", "s:big63"), tok("str", "s:big200"), tok("str", "s:big64a")]},
    {"name": "rpush", "args": [tok("key", "k1"), tok("str", "s:big70"), tok("str", "s:big64b"), tok("str", "s:big63"), tok("str", "s:big64a")]},
    {"name": "hset", "args": [tok("key", "k1"), tok("key", "s:big64b"), tok("str", "s:big64a")]},
    {"name": "append", "args": [tok("key", "s:big200"), tok("str", "s:big70")]},
]


def big_pipeline():
    reqs = [{"cls": "well", "name": v["name"], "args": v["args"]} for v in BIG if v["name"] != "MYCMD"]
    return {"handler": "rec", "tracer": False, "nconns": 1, "steps": [{"c": 0, "op": "send", "chunking": ch, "reqs": reqs + [cmdlib.echo("t1")]} for ch in ("whole", "perreq")]}


def runtime_registration():
    """An application executor registered while the connection is open: the same spelling is unknown before and dispatched after."""
    my = lambda name, *a: {"cls": "well", "name": name, "args": list(a)}
    return {"handler": "rec", "tracer": False, "nconns": 2, "steps": [
        {"c": 0, "op": "send", "reqs": [my("MYCMD", tok("str", "v1")), my("mycmd", tok("str", "v2"))]},
        {"c": 1, "op": "send", "reqs": [my("MYCMD2")]},
        {"c": 0, "op": "register", "name": "MYCMD"},
        {"c": 0, "op": "send", "reqs": [my("mycmd", tok("str", "v2")), my("MYCMD", tok("str", "v1")), my("MYCMD2", tok("str", "v1"))]},
        {"c": 1, "op": "send", "reqs": [my("MYCMD2"), my("MYCMD", tok("str", "s:bin"))]},
        {"c": 0, "op": "register", "name": "MYCMD2"},
        {"c": 1, "op": "send", "reqs": [my("MYCMD2"), my("mycmd2", tok("str", "v1")), my("MYCMD")]},
        {"c": 0, "op": "send", "reqs": [my("MYCMD2", tok("str", "v1")), cmdlib.echo("t1")]},
        # ... and replaced: the connection's most recent command is the one whose executor changes, in the same spelling
        {"c": 0, "op": "send", "reqs": [my("MYCMD", tok("str", "v1"))]},
        {"c": 0, "op": "register", "name": "MYCMD", "tag": "MyCmdB"},
        {"c": 0, "op": "send", "reqs": [my("MYCMD", tok("str", "v1")), my("MYCMD", tok("str", "v2"))]},
        {"c": 1, "op": "send", "reqs": [my("GET", tok("key", "k1"))]},
        {"c": 1, "op": "register", "name": "GET", "tag": "MyGet"},       # over a built-in command
        {"c": 1, "op": "send", "reqs": [my("GET", tok("key", "k1")), my("get", tok("key", "k2"))]}]}


def run(ctx):
    thorough = ctx.tier == "thorough"
    ctx.build()
    if ctx.replay:
        scenarios = [json.load(open(ctx.replay))["scenario"]]
        vecs = []
    else:
        gen = ctx.tlc("MC_Cmd", "MC_Cmd_well_thorough.cfg" if thorough else "MC_Cmd_well_quick.cfg", name="MC_Cmd_well",
                      workers=vlib.NCPU, timeout=2400)
        vecs = [json.loads(s) for s in gen.scenarios] + [dict(v, st="extra") for v in EXTRA + BIG]
        scenarios = [two_conn_wrap(v) for v in vecs]
        scenarios += [big_pipeline(), runtime_registration()]
        scenarios += [cmdlib.concurrent_slow(v) for v in range(8)]     # "what the handler returns is what the client receives", concurrently
    ctx.stage("generate")
    accepted, scs, lines = connlib.run_scenarios(ctx, scenarios, "c05")
    groups = connlib.report(ctx, accepted, scs, lines, None)
    connlib.violations_from_groups(ctx, groups, lines, lambda sc: scenarios[sc // 10000 - 1])
    per_cmd = {}
    for v in vecs:
        per_cmd[v["name"].upper()] = per_cmd.get(v["name"].upper(), 0) + 1
    samples = [{"request": cmdlib.show(v)} for v in vecs[3:3000:997]]
    return ctx.finish("model_checking", {
        "traces_validated_against_impl": len(scs), "evaluations": len(scs),
        "distinct_nontrivial": len(set(cmdlib.show(v) for v in vecs)),
        "rule": "every well-formed argument vector of MC_Cmd's rich pools (binary/empty/CRLF strings, 64-bit boundary integers, "
                "infinite and exclusive bounds, every option subset/order up to the tail bound, three letter-case variants of option "
                "words, duplicate keys) is sent on connection 0 (database 2) while connection 1 uses database 5; TraceConn compares "
                "the recorded handler call(s) token by token with Commands!Expect and the reply with the handler's result; plus "
                "unknown commands, application executors and AUTH through a recording auth handler",
        "samples": samples or [{"note": "replay"}], "exhaustive": True, "vectors_per_command": per_cmd,
    }, assumptions=["strings are compared through the harness's symbol table (unknown bytes map to '?hex' and can never match)",
                    "EXPIRE's deadline is checked as a window [send time + n, call time + n]"])
