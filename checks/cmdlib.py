"""Helpers shared by the checks that replay command vectors (C03, C05, C07, C10, C20)."""
import json

TOK0 = {"k": "str", "s": "", "n": 0, "big": "", "f": "", "fs": "", "ex": False, "w": "", "cs": ""}


def tok(k, s="", **kw):
    t = dict(TOK0, k=k, s=s)
    t.update(kw)
    return t


def echo(tag):
    return {"cls": "echo", "name": "ECHO", "args": [tok("str", tag)]}


def wrap_vector(v, tracer=False, handler="rec"):
    """ECHO t1, X, ECHO t2 in one chunk: X must be answered exactly once and leave its neighbours alone."""
    return {"handler": handler, "tracer": tracer, "nconns": 1, "steps": [{"c": 0, "op": "send", "chunking": "whole", "reqs": [
        echo("t1"), {"cls": v.get("st", ""), "name": v["name"], "args": v["args"]}, echo("t2")]}]}


def show(v):
    def t(a):
        if a["k"] == "null":
            return "<null>"
        if a["k"] == "int":
            return a["big"] or str(a["n"])
        if a["k"] in ("float", "bound"):
            return ("(" if a["ex"] else "") + a["f"]
        if a["k"] == "word":
            return a["w"] + (":" + a["cs"] if a["cs"] else "")
        return a["s"]
    return " ".join([v["name"]] + [t(a) for a in v["args"]])


def concurrent_slow(variant, nconns=4, nreq=12):
    """Several connections answered at the same time through a slow transport (sconn.slow): a reply must not change between the
    moment it is built and the moment the transport has taken it, and must reach the connection whose request it answers."""
    steps = []
    for c in range(nconns):
        reqs = []
        for i in range(nreq):
            size = [1, 7, 64, 300, 1500, 5000][(i + c + variant) % 6]
            raw = tok("raw")
            raw["raw"] = [97 + c] * size
            reqs.append({"cls": "conc", "name": "ECHO", "args": [raw]})
            if i % 3 == 0:
                reqs.append({"cls": "conc", "name": "MGET", "args": [tok("key", "k1"), tok("key", "k2")]})
            if i % 4 == 1:
                reqs.append({"cls": "conc", "name": "CONFIG", "args": [tok("word", w="GET"), raw]})
            if i % 4 == 2:
                reqs.append({"cls": "conc", "name": "SET", "args": [tok("key", "k1"), raw]})
        steps.append({"c": c, "op": "send", "chunking": "perreq", "reqs": reqs})
    return {"handler": "rec", "nconns": nconns, "concurrent": True, "slowwrite": True, "steps": steps}


def concurrent_big(variant, nconns=3, nreq=4):
    """The same with replies beyond 64 KiB (where a serializer may switch to a kept or pooled buffer)."""
    steps = []
    for c in range(nconns):
        reqs = []
        for i in range(nreq):
            size = [65537, 70000, 131072, 66000, 99999][(i + c + variant) % 5]
            raw = tok("raw")
            raw["raw"] = [65 + (3 * c + i + variant) % 26] * size
            reqs.append({"cls": "conc", "name": "ECHO", "args": [raw]})
            reqs.append({"cls": "conc", "name": "PING", "args": []})
        steps.append({"c": c, "op": "send", "chunking": "perreq", "reqs": reqs})
    return {"handler": "rec", "nconns": nconns, "concurrent": True, "slowwrite": True, "steps": steps}


def concurrent_config(variant, nreq=150):
    """Connections that read several configuration values at once while others set them, and a witness that only wants its
    ECHOs answered: none of them may be kept waiting for ever (the harness's watchdog reports a connection that stalls)."""
    S = lambda x: tok("str", x)
    steps = []
    for c in range(5):
        reqs = []
        for i in range(nreq):
            if c < 2:
                reqs.append({"cls": "conc", "name": "CONFIG", "args": [tok("word", w="SET"), S(["c:save", "c:appendonly"][(i + c) % 2]), S("v%d" % ((i + variant) % 3 + 1))]})
            elif c < 4:
                reqs.append({"cls": "conc", "name": "CONFIG", "args": [tok("word", w="GET"), S("c:save"), S("c:appendonly"), S("c:save")] + ([S("w:abc")] if i % 5 == 0 else [])})
            else:
                reqs.append({"cls": "conc", "name": "ECHO", "args": [S("t%d" % (i % 4 + 1))]})
        steps.append({"c": c, "op": "send", "chunking": "perreq", "reqs": reqs})
    return {"handler": "rec", "nconns": 5, "concurrent": True, "steps": steps}


class IdleProbe:
    """Runs `vharness idle` beside a check (it mostly sleeps) and has TraceRESP!IdleOK judge what it measured."""
    def __init__(self, ctx, idle_ms):
        import threading, os
        self.ctx, self.idle_ms, self.res = ctx, idle_ms, {}
        self.trace = os.path.join(ctx.work, "idle.ndjson")
        self.th = threading.Thread(target=self._run)
        self.th.start()

    def _run(self):
        import vlib
        try:
            self.ctx.harness(["idle", "--out", self.trace, "--idle-ms", ",".join(str(m) for m in self.idle_ms)], timeout=max(self.idle_ms) // 1000 + 120)
        except vlib.Inconclusive as e:
            self.res["error"] = str(e)

    def finish(self):
        import json, vlib
        self.th.join()
        if "error" in self.res:
            raise vlib.Inconclusive(self.res["error"])
        acc, scs, lines = self.ctx.validate(self.trace, "TraceRESP", stateful=False)
        for sc in scs:
            if sc not in acc:
                ev = json.loads(lines[sc][0])
                self.ctx.violation("a connection on the %s port that was quiet for %d ms is no longer served: first PING -> %s, PING after the pause -> %s" % (
                    ev["port"], ev["idle_ms"], ev["before"], ev["after"]), {"event": ev, "cmd": "vharness idle --idle-ms %d" % ev["idle_ms"]})
        self.ctx.stage("idle-connections")
        return len(scs)
