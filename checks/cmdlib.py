"""Helpers shared by the checks that replay command vectors (C03, C05, C07, C10, C20)."""
import json

TOK0 = {"k": "str", "s": "", "n": 0, "big": "", "f": "", "fs": "", "ex": False, "w": "", "cs": ""}


def tok(k, s="", **kw):
    t = dict(TOK0, k=k, s=s)
    t.update(kw)
    return t


def echo(tag):
    return {"cls": "echo", "name": "ECHO", "args": [tok("str", tag)]}


def wrap_vector(v, tracer=False, handler="rec"):
    """ECHO t1, X, ECHO t2 in one chunk: X must be answered exactly once and leave its neighbours alone."""
    return {"handler": handler, "tracer": tracer, "nconns": 1, "steps": [{"c": 0, "op": "send", "chunking": "whole", "reqs": [
        echo("t1"), {"cls": v.get("st", ""), "name": v["name"], "args": v["args"]}, echo("t2")]}]}


def show(v):
    def t(a):
        if a["k"] == "null":
            return "<null>"
        if a["k"] == "int":
            return a["big"] or str(a["n"])
        if a["k"] in ("float", "bound"):
            return ("(" if a["ex"] else "") + a["f"]
        if a["k"] == "word":
            return a["w"] + (":" + a["cs"] if a["cs"] else "")
        return a["s"]
    return " ".join([v["name"]] + [t(a) for a in v["args"]])
