"""C20 - tracing spans are balanced for every request outcome."""
import json
import connlib
import cmdlib
import vlib
from cmdlib import tok, echo

COMPOSED = [("STRLEN", [tok("key", "k1")]), ("SUBSTR", [tok("key", "k1"), tok("int", n=0), tok("int", n=1)]), ("HEXISTS", [tok("key", "k1"), tok("key", "f1")]),
            ("HKEYS", [tok("key", "k1")]), ("HLEN", [tok("key", "k1")]), ("HSTRLEN", [tok("key", "k1"), tok("key", "f1")]), ("HVALS", [tok("key", "k1")]),
            ("HLEN", [tok("key", "k:err")]), ("STRLEN", [tok("key", "k:nil")]), ("HKEYS", [tok("key", "k:arr")]), ("HLEN", []), ("SUBSTR", [tok("key", "k1")]),
            ("GET", [tok("key", "k1")]), ("QUIT", []), ("FOOBAR", []), ("MGET", [tok("key", "k1"), tok("key", "k:nil")])]


def run(ctx):
    thorough = ctx.tier == "thorough"
    ctx.build()
    if ctx.replay:
        scenarios = [json.load(open(ctx.replay))["scenario"]]
        counts = {}
    else:
        pipes = ctx.tlc("MC_C03", "MC_C03_thorough.cfg" if thorough else "MC_C03_quick.cfg", name="MC_C03", workers=vlib.NCPU, timeout=1800)
        cmds = ctx.tlc("MC_Cmd", "MC_Cmd_thorough.cfg" if thorough else "MC_Cmd_quick.cfg", name="MC_Cmd", workers=vlib.NCPU, timeout=1800)
        scenarios = [json.loads(s) for s in pipes.scenarios]          # tracer is on in MC_C03's scenarios
        counts = {"pipelines": len(scenarios)}
        vecs = [json.loads(s) for s in cmds.scenarios]
        scenarios += [cmdlib.wrap_vector(v, tracer=True) for v in vecs]
        counts["command_vectors"] = len(vecs)
        # every command composed from other commands x every odd thing a handler may hand back to the inner command (nothing, an
        # error, a value of the wrong type, ...): whatever happens inside, the spans of the request are closed inside out
        odd = ["k:nil", "k:err", "k:both", "k:null", "k:int", "k:status", "k:arr", "k:nested", "k:emptyerr", "k:binary"]
        inner = [("STRLEN", []), ("SUBSTR", [tok("int", n=0), tok("int", n=1)]), ("GETRANGE", [tok("int", n=0), tok("int", n=1)]),
                 ("HEXISTS", [tok("key", "f1")]), ("HSTRLEN", [tok("key", "f1")]), ("HKEYS", []), ("HVALS", []), ("HLEN", []),
                 ("INCR", []), ("DECRBY", [tok("int", n=2)]), ("APPEND", [tok("str", "v1")]), ("HMGET", [tok("key", "f1"), tok("key", "f2")]),
                 ("SCARD", []), ("SISMEMBER", [tok("key", "m1")]), ("ZCARD", []), ("ZREVRANGE", [tok("int", n=0), tok("int", n=-1)])]
        for name, rest in inner:
            for k in odd:
                scenarios.append(cmdlib.wrap_vector({"st": "c20", "name": name, "args": [tok("key", k)] + rest}, tracer=True))
        scenarios.append(cmdlib.wrap_vector({"st": "c20", "name": "MGET", "args": [tok("key", k) for k in odd]}, tracer=True))
        counts["composed_x_odd_results"] = len(inner) * len(odd) + 1
        cuts = 0
        for name, args in COMPOSED:                                    # end of stream at every offset, with and without a password
            for rp in ("", "pw:exact"):
                for how in ("halfclose", "fullclose"):
                    x = {"cls": "c20", "name": name, "args": args}
                    scenarios.append({"handler": "rec", "tracer": True, "nconns": 1, "requirepass": rp,
                                      "steps": [{"c": 0, "op": "send", "chunking": "whole", "cutall": True, "reqs": [echo("t1"), x, echo("t2")]},
                                                {"c": 0, "op": how}]})
                    cuts += 1
        counts["cut_pipelines"] = cuts
        nw = 0
        for name, args in COMPOSED + [("ECHO", [tok("str", "v1")])]:   # the client is gone when the reply is written (write failure)
            for at in (0, 14, 20):
                x = {"cls": "c20", "name": name, "args": args}
                scenarios.append({"handler": "rec", "tracer": True, "nconns": 1,
                                  "steps": [{"c": 0, "op": "wfail", "wfailat": at},
                                            {"c": 0, "op": "send", "chunking": "whole", "reqs": [echo("t1"), x, echo("t2")]}, {"c": 0, "op": "halfclose"}]})
                nw += 1
        counts["write_failures"] = nw
        # the application stops the server while connections wait for their next request (the root span of that request is
        # already open) or have not sent anything yet
        ns = 0
        for name, args in COMPOSED[:3] + [("ECHO", [tok("str", "v1")])]:
            for rp in ("", "pw:exact"):
                x = {"cls": "c20", "name": name, "args": args}
                scenarios.append({"handler": "rec", "tracer": True, "nconns": 3, "requirepass": rp, "steps": [
                    {"c": 0, "op": "send", "chunking": "whole", "reqs": [echo("t1"), x]},
                    {"c": 1, "op": "send", "chunking": "whole", "reqs": []},
                    {"c": 2, "op": "send", "chunking": "whole", "cut": 9, "reqs": [echo("t2")]},       # half a request received
                    {"c": 0, "op": "stop"}]})
                ns += 1
        counts["stops_with_open_connections"] = ns
    ctx.stage("generate")
    accepted, scs, lines = connlib.run_scenarios(ctx, scenarios, "c20")
    groups = connlib.report(ctx, accepted, scs, lines, None)
    connlib.violations_from_groups(ctx, groups, lines, lambda sc: scenarios[sc // 10000 - 1])
    nspans = 0
    shapes = set()
    deepest = 0
    for sc in scs:
        names = []
        depth = 0
        for ln in lines[sc]:
            if '"ev":"span"' in ln:
                o = json.loads(ln)
                if o["op"] == "start":
                    nspans += 1
                    depth += 1
                    deepest = max(deepest, depth)
                    names.append(o["name"])
                else:
                    depth -= 1
        shapes.add(tuple(names))
    samples = []
    for sc in scs[3:6000:2500]:
        samples.append({"requests": connlib.request_names(lines[sc]),
                        "spans": [(json.loads(l)["op"], json.loads(l)["name"]) for l in lines[sc] if '"ev":"span"' in l][:24],
                        "accepted": sc in accepted})
    return ctx.finish("model_checking", {
        "traces_validated_against_impl": len(scs), "evaluations": len(scs), "distinct_nontrivial": len(shapes),
        "rule": "the pipelines of MC_C03 (every outcome class incl. QUIT, unknown, unauthorized, non-array frames), every argument vector of "
                "MC_Cmd between two ECHOs, and every composed command cut at EVERY byte offset (half and full close, with and without a "
                "password), all with a recording tracer installed; TraceConn's span operators require: one root per request finished exactly "
                "once, children started under an open parent and finished before it, no double finish, no open span at the next root or at "
                "return, one root per request counted wherever the server waits for input and at return; plus reply write failures. distinct = distinct sequences of span names",
        "samples": samples or [{"note": "replay"}], "exhaustive": True, "spans_started": nspans, "max_depth": deepest, **counts,
    }, assumptions=["spans are recorded by a tracer.Tracer double built on go-tracing's common span-context stack (the production contexts use the same stack)"])
