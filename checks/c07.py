"""C07 - no client can crash the server or disturb other clients."""
import itertools
import json
import os
import random
import connlib
import cmdlib
import vlib
from cmdlib import tok, echo

WKEY = tok("key", "kw")


def R(name, *args, cls="c07"):
    return {"cls": cls, "name": name, "args": list(args)}


def I(n):
    return tok("int", n=n)


def S(s):
    return tok("str", s)


def frame(b):
    return {"cls": "wild", "name": "", "args": [], "frame": list(b)}


def with_witness(offender_steps, handler, setup=()):
    """Offender on connection 0, witness on connection 1; the witness must keep getting exact replies (RedisModel)."""
    steps = [{"c": 1, "op": "send", "reqs": [R("SET", WKEY, S("v1")), R("GET", WKEY)]}]
    if setup:
        steps.append({"c": 0, "op": "send", "chunking": "perreq", "reqs": list(setup)})
    for i, st in enumerate(offender_steps):
        steps.append(dict({"c": 0}, **st))
        steps.append({"c": 1, "op": "send", "reqs": [R("GET", WKEY), echo("t%d" % (i % 3 + 1)), R("APPEND", WKEY, S("v2")), R("STRLEN", WKEY)]})
    steps.append({"c": 1, "op": "send", "reqs": [R("SET", WKEY, S("v3")), R("GET", WKEY), R("DEL", WKEY), R("EXISTS", WKEY)]})
    return {"handler": handler, "tracer": False, "nconns": 2, "model": True, "modelconns": [1], "steps": steps}


def boundary_programs():
    """Boundary arguments against stored states of size 0..3 (indices -len-1..len+1 and inverted, counts and limits -1,0,1,len+1, offset>count,
    extreme numbers)."""
    out = []
    for size in range(0, 4):
        vals = [S("va"), S("vb"), S("s:crlf")][:size]
        idx = sorted(set([-size - 1, -size, -1, 0, 1, size - 1, size, size + 1]))
        big = [tok("int", big="max64"), tok("int", big="min64")]
        # strings
        setup = [R("SET", S("ks"), tok("raw", raw=list(b"abc"[:size])))] if True else []
        reqs = [R(c, S("ks"), I(a), I(b)) for c in ("GETRANGE", "SUBSTR") for a in idx for b in idx]
        reqs += [R("GETRANGE", S("ks"), x, y) for x in big for y in big + [I(0)]]
        out.append((setup, reqs))
        # lists
        setup = [R("RPUSH", S("kl"), *vals)] if size else []
        reqs = [R("LRANGE", S("kl"), I(a), I(b)) for a in idx for b in idx] + [R("LINDEX", S("kl"), I(a)) for a in idx]
        reqs += [R("LRANGE", S("kl"), x, y) for x in big for y in big] + [R("LINDEX", S("kl"), x) for x in big]
        # pops change the state: each one runs against a freshly rebuilt list (a step of several requests)
        fresh = [R("DEL", S("kl"))] + ([R("RPUSH", S("kl"), *vals)] if size else [])
        reqs += [fresh + [R(c, S("kl"), n)] for c in ("LPOP", "RPOP") for n in [I(-1), I(0), I(1), I(size), I(size + 1)] + big]
        reqs += [fresh + [R(c, S("kl"), I(2)), R(c, S("kl"), big[0]), R("LLEN", S("kl"))] for c in ("LPOP", "RPOP")]
        out.append((setup, reqs))
        # sorted sets
        setup = [R("ZADD", S("kz"), *[x for i, v in enumerate(vals) for x in (I(i + 1), v)])] if size else []
        reqs = [R(c, S("kz"), I(a), I(b)) for c in ("ZRANGE", "ZREVRANGE") for a in idx for b in idx]
        reqs += [R("ZRANGE", S("kz"), I(a), I(b), tok("word", w="REV"), tok("word", w="WITHSCORES")) for a in idx for b in (0, -1, size)]
        lim = [(-1, 1), (0, -1), (0, 0), (1, 0), (5, 2), (size + 1, 1), (1, size + 1), (2, 1)]
        for lo, hi in ((I(0), I(10)), (tok("float", f="-inf"), tok("float", f="+inf")), (I(3), I(1)), (tok("bound", f="1", ex=True), I(2))):
            for o, c in lim:
                reqs.append(R("ZRANGEBYSCORE", S("kz"), lo, hi, tok("word", w="LIMIT"), I(o), I(c)))
                reqs.append(R("ZREVRANGEBYSCORE", S("kz"), hi, lo, tok("word", w="LIMIT"), I(o), I(c)))
                reqs.append(R("ZRANGE", S("kz"), lo, hi, tok("word", w="BYSCORE"), tok("word", w="LIMIT"), I(o), I(c)))
        reqs += [R("ZRANGE", S("kz"), x, y) for x in big for y in big] + [R("ZRANGEBYSCORE", S("kz"), I(0), I(9), tok("word", w="LIMIT"), big[0], big[1])]
        # LIMIT offsets and counts at the 64-bit edges for every range command that takes LIMIT (a loop bounded only by the
        # client's number must not run for ever), with and without WITHSCORES
        for o, c in ((big[0], I(1)), (big[0], big[0]), (I(0), big[0]), (I(1), big[1]), (tok("int", big="2^31"), I(2))):
            for ws in ([], [tok("word", w="WITHSCORES")]):
                reqs.append(R("ZRANGEBYSCORE", S("kz"), I(0), I(10), tok("word", w="LIMIT"), o, c, *ws))
                reqs.append(R("ZREVRANGEBYSCORE", S("kz"), I(10), I(0), tok("word", w="LIMIT"), o, c, *ws))
                reqs.append(R("ZRANGE", S("kz"), I(0), I(10), tok("word", w="BYSCORE"), tok("word", w="LIMIT"), o, c, *ws))
        reqs += [R("ZINCRBY", S("kz"), tok("float", f="+inf"), S("va")), R("ZINCRBY", S("kz"), tok("float", f="-inf"), S("va")), R("ZSCORE", S("kz"), S("va")),
                 R("ZADD", S("kz"), tok("float", f="1e300"), S("vb")), R("ZRANGE", S("kz"), I(0), I(-1), tok("word", w="WITHSCORES"))]
        out.append((setup, reqs))
        # counters and others
        reqs = [R("INCRBY", S("kc"), big[0]), R("INCRBY", S("kc"), big[0]), R("DECRBY", S("kc"), big[1]), R("INCR", S("kc")), R("SELECT", big[0]), R("SELECT", I(-1)),
                R("SCAN", big[0]), R("SCAN", I(-1), tok("word", w="COUNT"), I(-5)), R("EXPIRE", S("kc"), big[1]), R("EXPIRE", S("kc"), big[0]),
                R("SETEX", S("kc"), big[0], S("va")), R("SET", S("kc"), S("va"), tok("word", w="PX"), big[0]), R("SET", S("kc"), S("va"), tok("word", w="EXAT"), big[0])]
        out.append(([], reqs))
    return out


def short_strings(n):
    alpha = b"*$+-19\r\n"
    out = []
    for l in range(1, n + 1):
        for t in itertools.product(alpha, repeat=l):
            out.append(bytes(t))
    return out


def run(ctx):
    thorough = ctx.tier == "thorough"
    ctx.build()
    rng = random.Random(ctx.seed)
    scenarios = []
    counts = {}
    if ctx.replay:
        scenarios = [json.load(open(ctx.replay))["scenario"]]
    else:
        # (1) every command x every argument vector of the grammar, as the offender
        cmds = ctx.tlc("MC_Cmd", "MC_Cmd_thorough.cfg" if thorough else "MC_Cmd_quick.cfg", name="MC_Cmd", workers=vlib.NCPU, timeout=2400)
        vecs = [json.loads(s) for s in cmds.scenarios]
        for i in range(0, len(vecs), 12):           # a dozen offender requests per scenario, witness in between
            chunk = vecs[i:i + 12]
            for handler in (("example", "ref") if (i // 12) % 4 == 0 or thorough else (("example",) if (i // 12) % 2 else ("ref",))):
                scenarios.append(with_witness([{"op": "send", "chunking": "perreq", "reqs": [R(v["name"], *v["args"])]} for v in chunk], handler))
        counts["command_vectors"] = len(vecs)
        # (2) boundary arguments against stored states
        nb = 0
        for setup, reqs in boundary_programs():
            nb += len(reqs)
            for i in range(0, len(reqs), 16):
                for handler in ("example", "ref"):
                    scenarios.append(with_witness([{"op": "send", "chunking": "perreq", "reqs": r if isinstance(r, list) else [r]}
                                                   for r in reqs[i:i + 16]], handler, setup))
        counts["boundary_requests"] = nb
        # (3) malformed / empty / null / nested frames and arbitrary short byte strings; disconnects at arbitrary points
        raws = short_strings(4 if thorough else 3)
        raws += [b"*0\r\n", b"*-1\r\n", b"*1\r\n$-1\r\n", b"*1\r\n*0\r\n", b"*2\r\n*1\r\n$4\r\nPING\r\n$1\r\nx\r\n", b"*1\r\n*1\r\n*1\r\n*0\r\n", b"$5\r\nab",
                 b"*3\r\n$3\r\nSET\r\n$1\r\nk\r\n", b"*9223372036854775807\r\n", b"$9223372036854775807\r\n", b"*99999999999\r\n$1\r\na\r\n", b"\x00\xff\xfe",
                 b"*1\r\n$4\r\nPING\r\n" * 3 + b"*2\r\n$3\r\nGET"]
        counts["raw_inputs"] = len(raws)
        for i in range(0, len(raws), 8):
            offs = []
            for b in raws[i:i + 8]:
                offs.append({"op": "send", "chunking": rng.choice(["whole", "bytes"]), "reqs": [frame(b)]})
            offs.append({"op": rng.choice(["halfclose", "fullclose"])})
            scenarios.append(with_witness(offs, "example" if (i // 8) % 2 else "ref"))
    if not ctx.replay:
        # (5) an expired key that nothing touched, then the commands that enumerate the keyspace (example store: expiry is lazy)
        for enum in ([R("KEYS", S("s:star"))], [R("SCAN", I(0))], [R("KEYS", S("s:star")), R("SCAN", I(0), tok("word", w="COUNT"), I(100))]):
            scenarios.append(with_witness([{"op": "send", "chunking": "perreq", "reqs": [R("SET", S("kx"), S("va"), tok("word", w="PX"), I(30)), R("SET", S("ky"), S("vb"))]},
                                           {"op": "sleep", "at": 80},
                                           {"op": "send", "chunking": "perreq", "reqs": enum},
                                           {"op": "send", "chunking": "perreq", "reqs": [R("GET", S("ky")), R("EXISTS", S("kx"))]}], "example"))
        # (6) several connections answered at the same time through a slow transport: everybody keeps getting their own replies
        scenarios += [cmdlib.concurrent_slow(v) for v in range(4)]
        scenarios += [cmdlib.concurrent_big(v) for v in range(2)] + [cmdlib.concurrent_config(v) for v in range(6)]
        counts["special_scenarios"] = 7
    ctx.stage("generate")
    accepted, scs, lines = connlib.run_scenarios(ctx, scenarios, "c07")
    groups = connlib.report(ctx, accepted, scs, lines, None)
    connlib.violations_from_groups(ctx, groups, lines, lambda sc: scenarios[sc // 10000 - 1])
    # (4) process level: a real server subprocess fed with hostile inputs; witness + fresh dial must stay alive
    died = False
    if not ctx.replay:
        mut = ctx.tlc("MC_C06", "MC_C06_mut_quick.cfg", name="MC_C06_mut", workers=vlib.NCPU, timeout=1200)
        inputs = [bytes(json.loads(s)["input"]) for s in mut.scenarios] + short_strings(4)
        for setup, reqs in boundary_programs():
            pass
        inp = os.path.join(ctx.work, "hostile.jsonl")
        # ... and array headers nested far deeper than any stack allows (generated inside the probe: 17 MB)
        vlib.write_jsonl(inp, [{"b": list(b)} for b in inputs] + [{"gen": {"gen": "nest", "unit": "*1\r\n", "n": 4200000, "tail": ""}}])
        trace = os.path.join(ctx.work, "crashprobe.ndjson")
        p = ctx.harness(["crashprobe", "--inputs", inp, "--out", trace], timeout=1800, ok_codes=tuple(range(0, 256)))
        counts["process_level_inputs"] = len(inputs)
        if p.returncode != 0:
            died = True
            last = [e for e in (vlib.read_jsonl(trace) if os.path.exists(trace) else []) if e.get("point") == "input"]
            ctx.violation("the server PROCESS died (exit %d) while receiving hostile input around #%s: %s" % (
                p.returncode, last[-1]["id"] if last else "?", p.stderr[-600:].split("\n\n")[0][:400]), {"inputs_file": "regenerate with bin/check C07", "stderr": p.stderr[-2000:]})
        else:
            acc2, s2, l2 = ctx.validate(trace, "TraceServer", stateful=True, shards=1, constants="CONSTANT Diagnose = FALSE\n")
            if s2[0] not in acc2:
                idx, ev = connlib.diagnose(ctx, l2[s2[0]], "TraceServer")
                ctx.violation("a hostile client disturbed other clients of the server process: %s" % json.dumps({k: v for k, v in ev.items() if k not in ("sc", "end")})[:300],
                              {"event": ev})
    ctx.stage("process-level")
    shapes = set(tuple(n.split(" ")[0] for n in connlib.request_names(lines[sc])[:30]) for sc in scs)
    samples = [{"requests": connlib.request_names(lines[sc])[:8], "accepted": sc in accepted} for sc in scs[3:2000:900]]
    return ctx.finish("model_checking", {
        "traces_validated_against_impl": len(scs) + (0 if ctx.replay else 1), "evaluations": sum(len(connlib.request_names(lines[sc])) for sc in scs),
        "distinct_nontrivial": len(shapes),
        "rule": "offender on one connection, witness on another (SET/GET/APPEND/STRLEN/DEL/EXISTS on its own key, ECHO) interleaved at request "
                "granularity, example store and reference store as handlers, the witness's replies judged exactly by RedisModel (shared model "
                "keyspace): (1) every argument vector of MC_Cmd for every command, (2) boundary products (indices -len-1..len+1 and inverted, counts "
                "and LIMIT -1/0/1/len+1/offset>count, +-2^63 edges, +-inf scores) against stored states of size 0..3, (3) every byte string up to the "
                "tier's length over the framing alphabet plus empty/null/nested/truncated/absurd frames, whole and bytewise, ending in half or full "
                "close; TraceConn rejects any panic escaping the loop, any non-RESP output, any wrong witness reply, any unreleased connection. "
                "(4) a real server subprocess receives the TLC mutants of MC_C06 and all short strings on throw-away connections closed three ways "
                "while a persistent witness and fresh dials must be served; its exit status is observed. evaluations = requests; distinct = distinct "
                "command-name sequences",
        "samples": samples or [{"note": "replay"}], "exhaustive": False, "process_died": died, **counts,
    }, assumptions=["handlers are the bundled example store and the reference store (non-panicking handlers)"])
