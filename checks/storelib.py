"""Program generation for the store-level checks (C12, C18, C07) from MC_Store.tla."""
import json
import random
import cmdlib
import vlib

TYPES = ["string", "hash", "list", "set", "zset"]


def cfg(ty, handler, maxlen, twokeys, sim=False, simlen=0):
    return ("SPECIFICATION Spec\nCONSTANTS\n  Type = \"%s\"\n  TwoKeys = %s\n  MaxLen = %d\n  Sim = %s\n  SimLen = %d\n  Handler = \"%s\"\n"
            "INVARIANTS Modelled NoEmptyAggregates OneType Export\nCHECK_DEADLOCK FALSE\n") % (
        ty, "TRUE" if twokeys else "FALSE", maxlen, "TRUE" if sim else "FALSE", simlen, handler)


def split_sleeps(sc):
    """The generator's pseudo-command SLEEP n becomes a real pause of n ms between two batches of requests."""
    steps = []
    for st in sc["steps"]:
        cur = []
        for r in st["reqs"]:
            if r["name"] == "SLEEP":
                if cur:
                    steps.append(dict(st, reqs=cur))
                    cur = []
                steps.append({"c": st["c"], "op": "sleep", "at": r["args"][0]["n"]})
            else:
                cur.append(r)
        if cur:
            steps.append(dict(st, reqs=cur))
    return dict(sc, steps=steps)


def programs(ctx, handler, maxlen, twokeys, nsim, simlen, types=TYPES):
    out = []
    counts = {}
    for ty in types:
        r = ctx.tlc("MC_Store", cfg(ty, handler, maxlen, twokeys), name="MC_Store_" + ty, workers=vlib.NCPU, timeout=2400)
        out += [json.loads(s) for s in r.scenarios]
        counts[ty + "_exhaustive"] = len(r.scenarios)
        if nsim > 0:
            r = ctx.tlc("MC_Store", cfg(ty, handler, 0, True, True, simlen), name="MC_Store_sim_" + ty, workers=1, timeout=2400,
                        simulate="num=%d" % nsim, depth=simlen + 1)
            sims = [json.loads(s) for s in r.scenarios]
            # every other random program also switches databases (SELECT 0/1/2 at random positions): each database is its
            # own keyspace in the model (TraceConn keeps one RedisModel keyspace per database id)
            rng = random.Random(ctx.seed * 7919 + len(out))
            for i, sc in enumerate(sims):
                if i % 2:
                    reqs = sc["steps"][0]["reqs"]
                    for _ in range(rng.randint(2, 5)):
                        at = rng.randrange(len(reqs) + 1)
                        reqs.insert(at, {"cls": "prog", "name": "SELECT", "args": [dict(cmdlib.tok("int", n=rng.randrange(3)))]})
            out += sims
            counts[ty + "_random"] = len(sims)
    return [split_sleeps(sc) for sc in out], counts
