"""C14 - no data races in server state shared between connections."""
import glob
import json
import os
import random
import re
import vlib

FRAMEWORK = ("github.com/cybergarage/go-redis/redis.", "github.com/cybergarage/go-redis/redis/proto.", "github.com/cybergarage/go-redis/redis/auth.",
             "github.com/cybergarage/go-redis/redis/glob.")


def parse_reports(paths):
    """Race detector reports -> list of (access a, access b) with the top frame of each stack."""
    out = []
    for p in paths:
        txt = open(p, errors="replace").read()
        for rep in txt.split("WARNING: DATA RACE")[1:]:
            stacks = re.split(r"\n\n", rep.strip())
            acc = []
            for st in stacks:
                m = re.match(r"\s*(Write|Read|Previous write|Previous read|Atomic \w+) at 0x[0-9a-f]+ by", st.strip())
                if not m:
                    continue
                frames = re.findall(r"\n\s+(\S+\(.*?\)|\S+)\n\s+(\S+):(\d+)", "\n" + st)
                if frames:
                    # the accessing function is the first frame outside the Go runtime (a map access shows as runtime.mapassign...)
                    fn, file, line = next((f for f in frames if not f[0].startswith("runtime.")), frames[0])
                    fw = next((f for f in frames if f[0].startswith(FRAMEWORK)), None)
                    acc.append({"kind": m.group(1), "fn": fn, "file": file, "line": int(line), "framework": fn.startswith(FRAMEWORK),
                                "first_framework_frame": (fw[0] if fw else "")})
            if len(acc) >= 2:
                out.append((acc[0], acc[1]))
    return out


def run(ctx):
    thorough = ctx.tier == "thorough"
    ctx.build()
    race = ctx.build(race=True)
    mc = ctx.tlc("Sync", "MC_C14.cfg", name="MC_C14", workers=vlib.NCPU, timeout=2400)
    un = ctx.tlc("Sync", "MC_C14_unguarded.cfg", name="MC_C14_unguarded", workers=4, timeout=600, tolerate_violation=True)
    if not un.violated:
        raise vlib.Inconclusive("the unguarded variant of Sync.tla is race free: the model does not see the locks (vacuous)")
    ctx.notes.append("spec mutation (configuration map and isClosed without their locks): RaceFree -> " + un.violated)
    logs = os.path.join(ctx.work, "racelogs")
    os.makedirs(logs)
    env = {"GORACE": "halt_on_error=0 log_path=%s/r" % logs}
    ms = 20000 if thorough else 3500
    events = []
    work = []

    def race_run(args, what):
        """One workload under the race detector.  Exit 66 = reports in the log; exit 2 with a Go runtime 'fatal error' (e.g.
        concurrent map iteration and map write) or an unrecovered panic = the process was aborted by a race, which is the
        property's own wording of the failure; any other failure of the driver is inconclusive."""
        p = ctx.harness(args, timeout=3000, race=True, env=env, ok_codes=(0, 2, 66))
        if p.returncode == 2:
            err = p.stderr or ""
            if "fatal error:" in err or "panic:" in err:
                at = err.find("fatal error:") if "fatal error:" in err else err.find("panic:")
                events.append({"ev": "race", "framework": True, "a": {"fn": "process aborted in %s: %s" % (what, err[at:at + 300].split("\n\n")[0])}, "b": {"fn": ""}})
            else:
                raise vlib.Inconclusive("harness %s failed (exit 2):\n%s" % (what, err[-2000:]))
        return p
    # workload 1+2: command mix x churn x CONFIG SET/GET x registry enumeration x Stop/Start/Restart
    for i, extra in enumerate([[], ["--requirepass"]]):
        t = os.path.join(ctx.work, "mix%d.ndjson" % i)
        p = race_run(["racemix", "--out", t, "--ms", ms, "--clients", 32 if thorough else 12, "--seed", ctx.seed + i] + extra, "racemix")
        if p.returncode != 2 and os.path.exists(t):
            events += [dict(e, ev="mix") for e in vlib.read_jsonl(t) if e.get("ev") == "mix"]
    # workload 3: lifecycle scripts with gated goroutines (lifecycle caller vs accept loops vs connection goroutines)
    mcs = ctx.tlc("MC_C15", "MC_C15_quick.cfg", name="MC_C15", workers=vlib.NCPU, timeout=1200)
    scripts = [json.loads(s) for s in mcs.scenarios]
    random.Random(ctx.seed).shuffle(scripts)
    scen = os.path.join(ctx.work, "race_life.jsonl")
    vlib.write_jsonl(scen, scripts[:1500 if thorough else 150])
    race_run(["life", "--scenarios", scen, "--out", os.path.join(ctx.work, "race_life.ndjson")], "lifecycle scripts")
    work.append({"ev": "workload", "name": "lifecycle scripts", "n": min(len(scripts), 1500 if thorough else 150)})
    # workload 4: real-socket churn incl. TLS endings; workload 5: TLS gate scenarios
    race_run(["churn", "--out", os.path.join(ctx.work, "race_churn.ndjson"), "--cycles", 400 if thorough else 60, "--inflight", 16, "--seed", ctx.seed], "churn")
    work.append({"ev": "workload", "name": "churn", "n": 400 if thorough else 60})
    mt = ctx.tlc("MC_C09", "MC_C09.cfg", name="MC_C09", workers=4, timeout=600)
    tl = [json.loads(s) for s in mt.scenarios]
    scen = os.path.join(ctx.work, "race_tls.jsonl")
    vlib.write_jsonl(scen, tl[:: (1 if thorough else 6)])
    race_run(["tlsgate", "--scenarios", scen, "--out", os.path.join(ctx.work, "race_tls.ndjson")], "tlsgate")
    work.append({"ev": "workload", "name": "tlsgate", "n": len(tl[:: (1 if thorough else 6)])})
    ctx.stage("workloads")
    reports = parse_reports(glob.glob(logs + "/r.*"))
    pairs = {}
    for a, b in reports:
        key = tuple(sorted([a["fn"], b["fn"]]))
        pairs.setdefault(key, []).append((a, b))
    for key, lst in sorted(pairs.items()):
        a, b = lst[0]
        events.append({"ev": "race", "framework": a["framework"] or b["framework"], "a": a, "b": b, "count": len(lst)})
    trace = os.path.join(ctx.work, "c14.ndjson")
    vlib.write_jsonl(trace, [dict(e, sc=1) for e in ([{"ev": "scenario"}] + work + events + [{"ev": "end"}])])
    accepted, scs, lines = ctx.validate(trace, "TraceSync", stateful=True, shards=1, constants="CONSTANT Diagnose = FALSE\n")
    mixes = [e for e in events if e["ev"] == "mix"]
    cov = {k: sum(m[k] for m in mixes) for k in ("connects", "cmds", "cfgset", "cfgget", "polls", "restarts", "stops", "authed", "tlsconns", "patterns")} if mixes else {}
    if mixes and min(cov["cfgset"], cov["cfgget"], cov["polls"], cov["restarts"] + cov["stops"], cov["connects"], cov["tlsconns"], cov["patterns"]) == 0:
        raise vlib.Inconclusive("workload did not exercise every access class: %s" % cov)
    outside = 0
    for e in events:
        if e["ev"] != "race":
            continue
        if not e["framework"]:
            outside += 1
            continue
        sig = sorted([e["a"]["fn"], e["b"]["fn"]])
        known = [f for f in ctx.findings if sorted(f["signature"].get("pair", [])) == sig]
        if known:
            ctx.known(known[0], "race between %s and %s" % tuple(sig))
        else:
            ctx.violation("data race in framework state between %s (%s:%s) and %s (%s:%s) [%d report(s)]" % (
                e["a"]["fn"], e["a"].get("file", ""), e["a"].get("line", ""), e["b"]["fn"], e["b"].get("file", ""), e["b"].get("line", ""),
                e.get("count", 1)), {"event": e, "how": "CGO_ENABLED=1 go build -race -tags verif ./harness && GORACE=log_path=... vharness racemix"})
    nrace = sum(1 for e in events if e["ev"] == "race")
    return ctx.finish("exploration", {
        "evaluations": int(cov.get("cmds", 0)) + int(cov.get("connects", 0)) + 1,
        "distinct_nontrivial": max(2, len([k for k, v in cov.items() if v > 0]) + len(work)),
        "rule": "design level: Sync.tla (shared locations, access sites with their locks, go/mutex/listener-close happens-before edges) explored by TLC "
                "with vector clocks over every interleaving: RaceFree holds for the guarded design and fails for the unguarded variant. Observation: "
                "the harness is built with -race and runs (1) the command mix with connection churn, CONFIG SET/GET, registry enumeration and random "
                "Stop/Start/Restart, without and with a password, (2) TLC-generated lifecycle scripts with parked goroutines, (3) real-socket churn incl. "
                "TLS endings, (4) TLS gate scenarios; every race report is reduced to the unordered pair of top frames; a pair with an access in the "
                "framework packages is never allowed. distinct_nontrivial = access classes exercised (counters > 0) + workloads",
        "samples": [cov or {"note": "no mix"}] + work[:2], "states": mc.distinct, "transitions": mc.generated,
        "race_reports": nrace, "reports_outside_framework": outside, "coverage": cov, "traces_validated_against_impl": 1,
    }, assumptions=["the observer of memory accesses is Go's race detector (dynamic analysis, outside the TLA+ family); the specification contributes the "
                    "design-level verdict, the inventory of shared locations and the workload's coverage obligation",
                    "races whose two accesses are both in application code (e.g. the example store's unguarded records) are not framework state"],
        extra=None)
