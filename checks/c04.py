"""C04 - the reply stream is always well-formed RESP, whatever clients or handlers supply."""
import itertools
import json
import os
import random
import threading
import connlib
import cmdlib
import vlib
from cmdlib import tok, echo

HOSTILE = ["s:forge", "s:forge2", "s:crlf", "s:lf", "s:cr", "s:bin", "s:empty", "s:nul"]
HOSTILE_NAMES = ["FOO\r\n+OK", "FOO\rBAR", "FOO\nBAR", "X\r\n:1", "X\r\n$-1", "GET\r\n", "", "\r\n", "ge\x00t", "*", "$"]
RESULT_KEYS = ["k:err", "k:crlferr", "k:emptyerr", "k:nil", "k:both", "k:crlfstr", "k:lfstr", "k:crstr", "k:arr", "k:nested", "k:arrnil",
               "k:null", "k:int", "k:status", "k:binary", "k1"]


def enc(v):
    t = v["t"]
    if t in ("str", "err", "int"):
        return {"str": b"+", "err": b"-", "int": b":"}[t] + v["p"] + b"\r\n"
    if t == "bulk":
        return b"$%d\r\n%s\r\n" % (len(v["p"]), v["p"])
    if t == "null":
        return b"$-1\r\n"
    return b"*%d\r\n" % len(v["e"]) + b"".join(enc(e) for e in v["e"])


def bulk(s):
    return {"t": "bulk", "p": s if isinstance(s, bytes) else s.encode("latin1")}


def arr(*e):
    return {"t": "arr", "e": list(e)}


FRAMES = [  # requests that are not "a non-empty array of bulk strings"
    {"t": "str", "p": b"PING"}, {"t": "str", "p": b""}, {"t": "err", "p": b"ERR x"}, {"t": "int", "p": b"42"}, bulk("PING"), bulk(""),
    {"t": "null"}, arr(), arr({"t": "null"}), arr({"t": "null"}, bulk("x")), arr(arr(bulk("PING"))), arr(arr(bulk("GET"), bulk("k1"))),
    arr(arr()), arr(arr(arr())), arr({"t": "str", "p": b"PING"}), arr({"t": "int", "p": b"1"}), arr({"t": "err", "p": b"e"}),
    arr(bulk("ECHO"), arr(bulk("x"))), arr(bulk("ECHO"), {"t": "int", "p": b"5"}), arr(bulk("GET"), {"t": "str", "p": b"k1"}),
    arr(bulk("SET"), bulk("k1"), arr()), arr(bulk("MGET"), bulk("k1"), {"t": "null"}, arr()),
]


def around(req, handler="rec", **kw):
    s = {"handler": handler, "tracer": False, "nconns": 1,
         "steps": [{"c": 0, "op": "send", "chunking": "whole", "reqs": [echo("t1"), req, echo("t2")]}]}
    s.update(kw)
    return s


def R(name, *args):
    return {"cls": "c04", "name": name, "args": list(args)}


def scenarios_for(seed, nrandom):
    out = []
    for nm in HOSTILE_NAMES:                      # hostile command names (unknown command error echoes the name)
        out.append(around(R(nm, tok("str", "v1"))))
        out.append(around(R(nm)))
    for h in HOSTILE:                             # client data echoed into replies and error texts
        H = tok("str", h)
        J = tok("junk", h)
        for req in [R("ECHO", H), R("PING", H), R("GET", H), R("SET", tok("key", "k1"), H), R("SET", tok("key", "k1"), tok("str", "v1"), J),
                    R("SET", tok("key", "k1"), tok("str", "v1"), tok("word", w="EX"), J), R("EXPIRE", tok("key", "k1"), tok("int", n=1), J),
                    R("EXPIRE", tok("key", "k1"), J), R("CONFIG", J), R("CONFIG", tok("word", w="GET"), H),
                    R("CONFIG", tok("word", w="SET"), H, tok("str", "v1")), R("CONFIG", tok("word", w="SET"), tok("str", "c:save"), H),
                    R("SELECT", J), R("AUTH", H), R("AUTH", H, H), R("KEYS", H), R("ZADD", tok("key", "k1"), J, tok("key", "m1")),
                    R("ZADD", tok("key", "k1"), tok("int", n=1), H), R("LPOP", tok("key", "k1"), J), R("GETRANGE", tok("key", "k1"), J, tok("int", n=1)),
                    R("ZRANGE", tok("key", "k1"), J, tok("int", n=1)), R("ZRANGEBYSCORE", tok("key", "k1"), tok("int", n=0), J),
                    R("SCAN", tok("int", n=0), tok("word", w="MATCH"), H), R("SCAN", tok("int", n=0), tok("word", w="COUNT"), J),
                    R("MSET", H, H), R("HMSET", tok("key", "k1"), H, H), R("RENAME", H, H), R("INCRBY", tok("key", "k1"), J),
                    R("MYCMD", H), R("STRLEN", H), R("HEXISTS", H, H), R("SETEX", tok("key", "k1"), J, tok("str", "v1"))]:
            out.append(around(req, customexec=(req["name"] == "MYCMD")))
            out.append(around(req, handler="example"))
    for k in RESULT_KEYS:                          # handler results of every type and payload class
        K = tok("key", k)
        for req in [R("GET", K), R("MGET", tok("key", "k1"), K, tok("key", "k2")), R("HGET", K, tok("key", "f1")), R("HMGET", K, tok("key", "f1"), tok("key", "f2")),
                    R("LRANGE", K, tok("int", n=0), tok("int", n=-1)), R("SMEMBERS", K), R("ZREVRANGE", K, tok("int", n=0), tok("int", n=-1)),
                    R("HKEYS", K), R("HVALS", K), R("HLEN", K), R("STRLEN", K), R("APPEND", K, tok("str", "v1")), R("INCR", K), R("GETRANGE", K, tok("int", n=0), tok("int", n=1)),
                    R("SCARD", K), R("SISMEMBER", K, tok("str", "v1")), R("ZCARD", K), R("HSTRLEN", K, tok("key", "f1")), R("HEXISTS", K, tok("key", "f1")),
                    R("MSETNX", K, tok("str", "v1")), R("DEL", K), R("TYPE", K), R("SET", K, tok("str", "v1")), R("ZREVRANGEBYSCORE", K, tok("int", n=5), tok("int", n=0)),
                    R("ZADD", K, tok("int", n=1), tok("key", "m1")), R("LPOP", K), R("MSET", K, tok("str", "v1")), R("HMSET", K, tok("key", "f1"), tok("str", "v1"))]:
            out.append(around(req))
    for f in FRAMES:                               # frames the server cannot interpret
        fr = {"cls": "frame", "name": "", "args": [], "frame": list(enc(f))}
        out.append(around(fr))
        out.append(around(fr, handler="example"))
        out.append({"handler": "rec", "nconns": 1, "steps": [{"c": 0, "op": "send", "chunking": "bytes", "reqs": [fr, echo("t3")]}]})
    # the example store: stored client data coming back in replies
    for h in HOSTILE:
        H = tok("str", h)
        k = tok("key", "k1")
        prog = [R("SET", k, H), R("GET", k), R("GETSET", k, H), R("APPEND", k, H), R("GET", k), R("GETRANGE", k, tok("int", n=0), tok("int", n=-1)), R("STRLEN", k),
                R("MGET", k, tok("key", "k2")), R("HSET", tok("key", "k2"), H, H), R("HGET", tok("key", "k2"), H), R("HGETALL", tok("key", "k2")), R("HKEYS", tok("key", "k2")),
                R("HVALS", tok("key", "k2")), R("HMGET", tok("key", "k2"), H), R("LPUSH", tok("key", "k3"), H), R("LRANGE", tok("key", "k3"), tok("int", n=0), tok("int", n=-1)),
                R("LINDEX", tok("key", "k3"), tok("int", n=0)), R("LPOP", tok("key", "k3")), R("SADD", tok("key", "f1"), H), R("SMEMBERS", tok("key", "f1")),
                R("ZADD", tok("key", "f2"), tok("int", n=1), H), R("ZRANGE", tok("key", "f2"), tok("int", n=0), tok("int", n=-1), tok("word", w="WITHSCORES")),
                R("ZSCORE", tok("key", "f2"), H), R("SET", H, tok("str", "v1")), R("KEYS", tok("str", "s:star")), R("SCAN", tok("int", n=0)), R("TYPE", H),
                R("RENAME", H, tok("key", "m1")), R("EXISTS", H), R("DEL", tok("key", "m1"))]
        out.append({"handler": "example", "nconns": 1, "steps": [{"c": 0, "op": "send", "chunking": "perreq", "reqs": prog}]})
    # input that is not RESP at all, one string per connection (a parse error ends the connection): whatever the server
    # writes back - e.g. an error reply quoting the offending bytes - must still be a sequence of complete frames
    alpha = b"*$+-19\r\n"
    raws = [bytes(t) for l in (1, 2, 3) for t in itertools.product(alpha, repeat=l)]
    raws += [b"$3\r\nabc\n\n", b"$3\r\nabc\r\r", b"$3\r\nabc\n\r", b"$0\r\n\n\n", b"*1\r\n$1\r\na\n\r", b"\r\n", b"\n\n", b"\r\r\n", b" \r\n", b"?\r\n\r\n",
             b"*1\r\n\r\n", b"*1\r\n\n", b"*2\r\n$4\r\nECHO\r\n\r\n", b"$\r\n\r\n", b"*\r\n\r\n", b"+OK\n\r", b":1\r\r\n", b"$-2\r\n\r\n", b"*-2\r\n\r\n"]
    for b in raws:
        fr = {"cls": "wild", "name": "", "args": [], "frame": list(b)}
        out.append({"handler": "rec", "nconns": 1, "steps": [{"c": 0, "op": "send", "chunking": "whole", "reqs": [echo("t1"), fr]}, {"c": 0, "op": "halfclose"}]})
        if len(b) != 3:
            out.append({"handler": "example", "nconns": 1, "steps": [{"c": 0, "op": "send", "chunking": "bytes", "reqs": [fr]}, {"c": 0, "op": "halfclose"}]})
    # several connections answered at the same time through a slow transport: a reply must not change between the moment it
    # is built and the moment the transport has taken it (serialization buffers shared between connections)
    out += [cmdlib.concurrent_slow(v) for v in range(8)]
    out += [cmdlib.concurrent_big(v) for v in range(4)]
    rng = random.Random(seed)
    for _ in range(nrandom):                       # random payloads over all byte values
        n = rng.choice([0, 1, 2, 3, 8, 40])
        b = [rng.choice([13, 10, 13, 10, 43, 45, 58, 36, 42, 0, rng.randrange(256)]) for _ in range(n)]
        if b and all(chr(x).isalnum() or chr(x) in "+-._(" for x in b):
            # could be read as a number, a bound or an option word: the grammar classifies raw payloads as non-numeric
            # strings, so such a payload at an integer or option position would be judged against the wrong expectation
            b.append(0)
        raw = tok("raw")
        raw["raw"] = b
        nm = "".join(chr(x) for x in b) if rng.random() < 0.3 else rng.choice(["ECHO", "SET", "GET", "CONFIG", "FOO", "EXPIRE", "ZADD", "KEYS"])
        args = [raw] if rng.random() < 0.5 else [tok("key", "k1"), raw] if rng.random() < 0.5 else [tok("key", "k1"), tok("str", "v1"), raw]
        out.append(around(R(nm, *args), handler=rng.choice(["rec", "example"])))
    return out


def run(ctx):
    thorough = ctx.tier == "thorough"
    ctx.build()
    if ctx.replay:
        scenarios = [json.load(open(ctx.replay))["scenario"]]
    else:
        scenarios = scenarios_for(ctx.seed, 50000 if thorough else 1500)
    ctx.stage("generate")
    # meanwhile, on a real socket: a client stops reading in the middle of a 24 MiB reply for 12 s (longer than a plausible
    # write timeout) and then goes on (runs beside the in-memory scenarios: it mostly sleeps)
    slow = {}

    def slow_reader():
        t = os.path.join(ctx.work, "slowreader.ndjson")
        try:
            ctx.harness(["slowreader", "--out", t, "--stall-ms", 30000 if thorough else 12000], timeout=300)
            slow["trace"] = t
        except vlib.Inconclusive as e:
            slow["error"] = str(e)
    th = threading.Thread(target=slow_reader)
    if not ctx.replay:
        th.start()
    accepted, scs, lines = connlib.run_scenarios(ctx, scenarios, "c04")
    groups = connlib.report(ctx, accepted, scs, lines, None)
    connlib.violations_from_groups(ctx, groups, lines, lambda sc: scenarios[sc // 10000 - 1])
    if not ctx.replay:
        th.join()
        if "error" in slow:
            raise vlib.Inconclusive(slow["error"])
        sacc, ss, sl = ctx.validate(slow["trace"], "TraceRESP", stateful=False)
        if ss[0] not in sacc:
            ev = json.loads(sl[ss[0]][0])
            ctx.violation("slow reader on a real socket: the reply stream is torn: declared %d payload %d terminator %s then %r (eof=%s)" % (
                ev["declared"], ev["payload"], ev["term"], bytes(ev["rest"]), ev["eof"]), {"event": ev, "cmd": "vharness slowreader --stall-ms %d" % ev["stall_ms"]})
        ctx.stage("slow-reader")
    shapes = set()
    nframes = 0
    samples = []
    for sc in scs:
        names = connlib.request_names(lines[sc])
        shapes.add(tuple(names))
        for ln in lines[sc]:
            if '"ev":"write"' in ln:
                nframes += 1
        if len(samples) < 3 and sc % 3001 == 7:
            w = [bytes(json.loads(ln)["b"]).decode("latin1") for ln in lines[sc] if '"ev":"write"' in ln]
            samples.append({"requests": names, "written": w, "accepted": sc in accepted})
    return ctx.finish("model_checking", {
        "traces_validated_against_impl": len(scs), "evaluations": len(scs), "distinct_nontrivial": len(shapes),
        "rule": "product of hostile command names, hostile argument payloads (CR, LF, CRLF+forged +OK/:1/$-1 frames, all 256 bytes, NUL, empty) "
                "at every position that can reach a reply or an error text, every scripted handler result (each message type with plain/CR/LF/"
                "CRLF+frame/empty/binary payloads, nil message, errors with each text class, message+error, arrays of these) through every "
                "command family, non-request frames, and the example store echoing stored client data; plus seeded random payloads. "
                "TraceConn decodes the RAW written bytes with the strict RESP.tla decoder: each reply must be exactly one frame. "
                "distinct = distinct request texts",
        "samples": samples or [{"note": "replay"}], "exhaustive": False, "reply_frames_decoded": nframes,
    }, assumptions=["a handler returning an integer message whose payload is not a decimal number is a handler bug outside the property "
                    "(not generated)", "one write carries at most one reply frame"])
