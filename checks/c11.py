"""C11 - a request is executed only if it was received completely."""
import json
import random
import connlib
import cmdlib
import vlib
from cmdlib import tok, echo


def pipelines(vecs, rng, per_cmd):
    by = {}
    for v in vecs:
        by.setdefault(v["name"], []).append(v)
    out = []
    for name in sorted(by):
        for v in rng.sample(by[name], min(per_cmd, len(by[name]))):
            x = {"cls": "well", "name": v["name"], "args": v["args"]}
            out.append([x])
            out.append([echo("t1"), x])
            out.append([{"cls": "set", "name": "SET", "args": [tok("key", "k2"), tok("str", "v2")]}, x, echo("t2")])
    return out


BIGLEN = {"s:big64a": 65536, "s:big64b": 65536, "s:big70": 70001, "s:big63": 65535, "k1": 2, "k2": 2, "k3": 2}


def big_cuts():
    """The stream ends inside a bulk string of 64 KiB or more that follows complete requests with equally large (and
    larger, and smaller) bulk strings: whatever those left in a buffer the parser keeps must not complete the cut one."""
    def enc_len(args):
        n = len("*%d\r\n" % (len(args) + 1)) + len("$3\r\nSET\r\n")
        for a in args:
            n += len("$%d\r\n" % BIGLEN[a]) + BIGLEN[a] + 2
        return n
    setr = lambda k, v: {"cls": "set", "name": "SET", "args": [tok("key", k), tok("str", v)]}
    out = []
    for before, last in (([("k1", "s:big64a")], ("k2", "s:big64b")), ([("k1", "s:big70")], ("k2", "s:big64b")),
                         ([("k1", "s:big63")], ("k2", "s:big64a")), ([("k1", "s:big64a"), ("k2", "s:big64b")], ("k3", "s:big64a"))):
        pre = sum(enc_len(list(r)) for r in before)
        hdr = enc_len([last[0]]) + len("$%d\r\n" % BIGLEN[last[1]])          # bytes of the last request before its big payload
        n = BIGLEN[last[1]]
        for k in (1, 4096, n // 2, n - 1, n, n + 1):
            for how in ("halfclose", "fullclose"):
                out.append({"handler": "rec", "tracer": True, "nconns": 1, "steps": [
                    {"c": 0, "op": "send", "chunking": "whole", "cut": pre + hdr + k, "reqs": [setr(*r) for r in before] + [setr(*last)]},
                    {"c": 0, "op": how}]})
    return out


def run(ctx):
    thorough = ctx.tier == "thorough"
    ctx.build()
    if ctx.replay:
        scenarios = [json.load(open(ctx.replay))["scenario"]]
        pipes = []
    else:
        gen = ctx.tlc("MC_Cmd", "MC_Cmd_well_quick.cfg", name="MC_Cmd_well", workers=vlib.NCPU, timeout=1800)
        vecs = [json.loads(s) for s in gen.scenarios]
        # derived commands (several primitive calls) are cut too
        for name, args in [("INCR", [tok("key", "k1")]), ("APPEND", [tok("key", "k1"), tok("str", "v1")]), ("MSETNX", [tok("key", "k1"), tok("str", "v1"), tok("key", "k2"), tok("str", "v2")]),
                           ("LPOP", [tok("key", "k1"), tok("int", n=2)]), ("MSET", [tok("key", "k1"), tok("str", "s:empty")]), ("HSTRLEN", [tok("key", "k1"), tok("key", "f1")])]:
            vecs.append({"name": name, "args": args, "st": "extra"})
        rng = random.Random(ctx.seed)
        pipes = pipelines(vecs, rng, 6 if thorough else 1)
        scenarios = []
        for p in pipes:
            for how in ("halfclose", "fullclose"):
                scenarios.append({"handler": "rec", "tracer": True, "nconns": 1,
                                  "steps": [{"c": 0, "op": "send", "chunking": "whole", "cutall": True, "reqs": p}, {"c": 0, "op": how}]})
        scenarios += big_cuts()
    ctx.stage("generate")
    accepted, scs, lines = connlib.run_scenarios(ctx, scenarios, "c11")
    groups = connlib.report(ctx, accepted, scs, lines, None)
    connlib.violations_from_groups(ctx, groups, lines, lambda sc: dict(scenarios[sc // 10000 - 1], _cut=sc % 10000 + 1))
    # on real sockets: complete requests followed by the end of the stream inside a request, or by a malformed frame, in one
    # segment and read late - every complete request's reply has to arrive (TraceServer churn rule, as in C19)
    if not ctx.replay:
        import os
        ctrace = os.path.join(ctx.work, "c11_sockets.ndjson")
        ctx.harness(["churn", "--out", ctrace, "--cycles", 60 if thorough else 25, "--inflight", 6, "--seed", ctx.seed,
                     "--modes", "malformed-pipeline,fin-mid,malformed,fin-boundary"], timeout=900)
        cacc, cs2, cl2 = ctx.validate(ctrace, "TraceServer", stateful=True, shards=1, constants="CONSTANT Diagnose = FALSE\n")
        if cs2[0] not in cacc:
            idx, ev = connlib.diagnose(ctx, cl2[cs2[0]], "TraceServer")
            ctx.violation("real sockets: a connection that ended behind complete requests lost replies or was not released: %s" % json.dumps(
                {k: v for k, v in ev.items() if k not in ("sc", "end")})[:400], {"cmd": "vharness churn --modes malformed-pipeline,fin-mid,malformed,fin-boundary --seed %d" % ctx.seed, "event": ev})
        ctx.stage("real-sockets")
    inside = 0
    samples = []
    for sc in scs:
        for ln in lines[sc]:
            if '"ev":"send"' in ln:
                o = json.loads(ln)
                if o["complete"] < o["of"]:
                    inside += 1
                if len(samples) < 3 and sc % 4999 == 11:
                    samples.append({"requests": connlib.request_names(lines[sc]), "bytes_delivered": o["upto"], "complete": o["complete"],
                                    "accepted": sc in accepted})
                break
    return ctx.finish("model_checking", {
        "traces_validated_against_impl": len(scs), "evaluations": len(scs), "distinct_nontrivial": inside,
        "rule": "pipelines of 1..3 well-formed requests (a TLC-generated vector of every command, seeded choice, plus derived commands) x "
                "EVERY byte offset of the encoded pipeline as the end of the stream x {half close, full close}; non-trivial = the stream "
                "ends strictly inside a request (counted); TraceConn allows a handler call only for a request whose last byte was "
                "delivered, requires every complete request to be answered once, and the loop to close the socket, deregister and return",
        "samples": samples or [{"note": "replay"}], "exhaustive": True, "pipelines": len(pipes),
    }, assumptions=["the delivered prefix arrives in one chunk (chunking independence is C02/C03)"])
