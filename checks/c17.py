"""C17 - key patterns match as Redis globs."""
import json
import os
import random
import connlib
import vlib
from cmdlib import tok

ALPHA = b"ab*?.+(|$\xff"


def raw(b):
    t = tok("raw")
    t["raw"] = list(b)
    return t


def R(name, *args):
    return {"cls": "c17", "name": name, "args": list(args)}


def store_scenarios(rng, n):
    out = []
    for _ in range(n):
        keys = set()
        while len(keys) < rng.randint(3, 9):
            keys.add(bytes(rng.choice(ALPHA) for _ in range(rng.randint(1, 3))))
        reqs = [R("SET", raw(k), tok("str", "v1")) for k in sorted(keys)]
        for _ in range(8):
            if rng.random() < 0.5:   # a pattern derived from a key, so that matches are frequent
                k = rng.choice(sorted(keys))
                p = bytes(rng.choice(b"*?") if rng.random() < 0.4 else c for c in k)
            else:
                p = bytes(rng.choice(ALPHA) for _ in range(rng.randint(1, 3)))
            reqs.append(R("KEYS", raw(p)))
            reqs.append(R("SCAN", tok("int", n=0), tok("word", w="MATCH"), raw(p), tok("word", w="COUNT"), tok("int", n=1000)))
        steps = [{"c": 0, "op": "send", "chunking": "perreq", "reqs": reqs}]
        # full cursor iterations (adaptive: the driver re-sends SCAN with the cursor it was given until it gets 0)
        for cnt in (None, 1, 2, 3, len(keys), 1000):
            k = rng.choice(sorted(keys))
            p = rng.choice([b"*", bytes(rng.choice(b"*?") if rng.random() < 0.4 else c for c in k)])
            args = [tok("int", n=0)] + ([tok("word", w="MATCH"), raw(p)] if p != b"*" or rng.random() < 0.5 else [])
            if cnt is not None:
                args += [tok("word", w="COUNT"), tok("int", n=cnt)]
            steps.append({"c": 0, "op": "scaniter", "at": 4 * len(keys) + 8, "reqs": [R("SCAN", *args)]})
        out.append({"handler": "example", "tracer": False, "nconns": 1, "model": True, "steps": steps})
    # history: option values that contain the separators and words of the option syntax itself (a space, MATCH, COUNT and
    # a number), after requests whose separate arguments spell the same text - whatever is remembered between SCAN requests
    # must keep the argument boundaries
    M, C, I0 = tok("word", w="MATCH"), tok("word", w="COUNT"), tok("int", n=0)
    keys = [b"a1", b"a2", b"b1", b"a* COUNT 100", b"a1 COUNT 100", b"b* MATCH a*", b"COUNT", b"MATCH"]
    reqs = [R("SET", raw(k), tok("str", "v1")) for k in keys]
    for p in (b"a* COUNT 100", b"a? COUNT 100", b"a1 COUNT 100", b"MATCH", b"COUNT"):
        words = p.split(b" ")
        split = [I0, M, raw(words[0])] + [x for i in range(1, len(words) - 1, 2) for x in ((C if words[i] == b"COUNT" else M),
                 (tok("int", n=100) if words[i + 1].isdigit() else raw(words[i + 1])))]
        if len(words) > 1:
            reqs.append(R("SCAN", *split))                                   # the text as separate arguments first ...
        reqs.append(R("SCAN", I0, M, raw(p)))                              # ... then as ONE pattern
        reqs.append(R("KEYS", raw(p)))
        reqs.append(R("SCAN", I0, M, raw(p), C, tok("int", n=1000)))
    out.append({"handler": "example", "tracer": False, "nconns": 1, "model": True, "steps": [{"c": 0, "op": "send", "chunking": "perreq", "reqs": reqs}]})
    return out


def run(ctx):
    thorough = ctx.tier == "thorough"
    ctx.build()
    mc = ctx.tlc("MC_C17", "MC_C17.cfg", name="MC_C17", workers=vlib.NCPU, timeout=1200)
    trace = os.path.join(ctx.work, "c17.ndjson")
    if ctx.replay:
        rp = json.load(open(ctx.replay))
        if "scenario" in rp:
            accepted, scs, lines = connlib.run_scenarios(ctx, [rp["scenario"]], "c17store")
            for sc in scs:
                if sc not in accepted:
                    ctx.violation("replayed store scenario rejected", {"scenario": rp["scenario"]})
            return ctx.finish("model_checking", {"traces_validated_against_impl": len(scs), "samples": [{"replay": True}]})
    ctx.harness(["c17", "--out", trace, "--plen", 4 if thorough else 3, "--klen", 3, "--random", 20000 if thorough else 1500, "--seed", ctx.seed],
                timeout=1800)
    ctx.stage("harness")
    accepted, scs, lines = ctx.validate(trace, "TraceGlob", stateful=False, shards=vlib.NCPU, timeout=2400)
    ctx.stage("validate")
    pairs = 0
    nontrivial = 0
    samples = []
    groups = {}
    for sc in scs:
        ev = json.loads(lines[sc][0])
        nk = (sum(len(ALPHA) ** i for i in range(ev["klen"] + 1)) if ev["universe"] else len(ev["keys"]))
        pairs += nk
        if any(c in (42, 63) for c in ev["p"]) or any(c in b".+(|$)^{}" for c in ev["p"]):
            nontrivial += 1
        if len(samples) < 3 and sc % 311 == 5:
            samples.append({"pattern": bytes(ev["p"]).decode("latin1"), "matching_keys": [bytes(h).decode("latin1") for h in ev["hits"]][:12],
                            "accepted": sc in accepted})
        if sc not in accepted:
            why = "compile error" if ev["err"] else "match set differs from Glob!Match"
            groups.setdefault(why, []).append(ev)
    for why, evs in groups.items():
        ev = min(evs, key=lambda e: len(e["p"]))
        ctx.violation("%s: %d pattern(s), e.g. %r err=%r hits=%s" % (why, len(evs), bytes(ev["p"]), ev["err"][:80],
                      [bytes(h).decode("latin1") for h in ev["hits"]][:10]), {"event": ev, "count": len(evs)})
    # KEYS / SCAN MATCH through the example server
    rng = random.Random(ctx.seed)
    scen = store_scenarios(rng, 5000 if thorough else 120)
    acc2, scs2, lines2 = connlib.run_scenarios(ctx, scen, "c17store")
    g2 = connlib.report(ctx, acc2, scs2, lines2, None)
    connlib.violations_from_groups(ctx, g2, lines2, lambda sc: scen[sc // 10000 - 1])
    return ctx.finish("model_checking", {
        "states": mc.distinct, "transitions": mc.generated,
        "traces_validated_against_impl": len(scs) + len(scs2), "evaluations": pairs, "distinct_nontrivial": nontrivial,
        "rule": "every pattern up to the tier's length over {a b * ? . + ( | $ and the byte 0xff, which is not valid UTF-8} against EVERY key up to length 3 over the same alphabet "
                "(complete), plus seeded random patterns up to length 12 over the characters the property names with keys derived from them; "
                "glob.Compile(p).MatchString(k) is recorded per pattern and TLC recomputes the match set with Glob!Match (which MC_C17 shows "
                "equal to an independent NFA formulation). KEYS p, SCAN 0 MATCH p COUNT 1000 and full SCAN cursor iterations with COUNT 1, 2, 3, n, 1000 and the default run "
                "against populated example stores and are compared with the model's selection. evaluations = (pattern, key) pairs; non-trivial = patterns containing a wildcard or a "
                "regexp metacharacter",
        "samples": samples or [{"note": "none"}], "exhaustive": True, "patterns": len(scs), "store_scenarios": len(scs2),
    }, assumptions=["Redis [...] classes and backslash escapes are not part of the property and are not generated",
                    "SCAN cursor values are the server's choice; a full iteration (driver follows the cursor, bounded by 4*keys+8 calls) must end and must have returned every matching key"])
