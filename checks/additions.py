"""What each check covers beyond the sentence in its `rule` (added with the sixth batch of seeded changes, DESIGN.md
section 6); merged into every evidence file as coverage.rule_additions."""
ADDITIONS = {
    "C01": "floats: every power of two up to 2^65 with both neighbours and +-1, powers of ten 1e-25..1e25, random whole numbers of every magnitude",
    "C02": "periodic streams: 10001 and 12000 repetitions of one value (null array, null bulk, empty array, nested null array) followed by requests, "
           "judged by TraceRESP!ChunkedRunOK from the decoding of the unit and of the tail",
    "C03": "KEYS / SCAN MATCH patterns with up to 40 '*' groups against a 60-byte key on the reference and the example store (Glob!Match is "
           "polynomial); vharness idle beside the other stages: connections on the plain and the TLS port quiet for 1 / 11 / 31 s (thorough: up to "
           "125 s) must be served before and after (TraceRESP!IdleOK)",
    "C04": "replies of 65537..131072 bytes on three connections at once through the slow transport (concurrent_big)",
    "C05": "arguments of 65535..200000 bytes, several per request and in consecutive requests; application executors registered and replaced "
           "while connections are open (register event; Conn.tla dispatches to the executor registered last, also over a built-in command)",
    "C06": "nesting units with a complete sibling per level (*2 + null array / null bulk / empty array / integer) at 1000, 10001 and 6000000 levels",
    "C07": "five concurrent connections: two CONFIG SET, two multi-key CONFIG GET, a witness (a harness process ended by the Go runtime with "
           "server frames on the stacks - panic, 'all goroutines are asleep' - is a violation for the running scenario); replies over 64 KiB concurrently",
    "C08": "a sample of the scenarios on a server object that was run before with and then without the password (passcycle); a 1500-byte "
           "password with credentials that agree on the first 512 / 1024 bytes only",
    "C09": "application-supplied tls.Config (RequireAnyClientCert, RequestClientCert, RequireAndVerifyClientCert) x rule x 7 credentials "
           "(TLSGate!ClientOKCustom); the harness process's system trust store (SSL_CERT_FILE) holds the foreign root",
    "C10": "every short ill-formed vector and a ninth of the rest again with a tracer installed",
    "C11": "end of stream inside a bulk of 64 KiB after complete requests with bulks of the same, a larger and a smaller size; real sockets "
           "(churn restricted to malformed-pipeline, fin-mid, malformed, fin-boundary): every reply to a complete request must arrive",
    "C12": "HMGET / MGET / MSETNX with 31..70 arguments incl. repeats and missing ones; INCR/DECR/INCRBY/DECRBY/APPEND on keys with 400..1500 ms "
           "to live followed by a pause; counters on stored values that are not canonical integers (05, +5, -0, 00, ' 5', 0x10, 1e3, 2^63)",
    "C13": "SELECT of ids 2^31..2^63-1 (every id beyond 32 bits is -1 to the specification); Stop with 1..3 connections open, Start, three "
           "fresh connections whose state must start from the defaults and stay separate",
    "C14": "the race mix also runs TLS handshakes (a quarter of the connections) and three pattern clients cycling through 1300 patterns; a "
           "report's accessing function is the first frame outside the Go runtime",
    "C15": "Server.tla models the TLS handshake as a client-driven state: MC_C15_hs.cfg (2 clients, plain+TLS) holds StopPostcondition, "
           "MC_C15_hs_noguard.cfg (Stop does not close handshaking transports) must violate it; churn Stop scenarios run first; idle probe as in C03",
    "C16": "long free-running programs on the example store (one client writes and reads back 25 values, another sends 40 EXPIRE / KEYS) on "
           "400 (thorough 2000) servers",
    "C17": "option-boundary histories: patterns that contain ' COUNT 100' / 'MATCH' after requests whose separate arguments spell the same text",
    "C18": "collections of 200 elements (sets, hashes, sorted sets: removals in four orders with reads in between; lists: 170 pops from both ends)",
    "C19": "ending modes quit-chatter (the client keeps sending after QUIT and keeps its socket) and malformed-pipeline; at Stop also a stalled "
           "reader on the TLS port and a client on the TLS port that has not started its handshake (must see its connection closed)",
    "C20": "Stop while connections wait for their next request, have sent nothing, or half a request (stop event in TraceConn); 16 composed "
           "commands x 10 odd handler results for the inner command",
}
