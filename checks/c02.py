"""C02 - parsing does not depend on how the byte stream is chunked."""
import json
import os
import vlib

QUICK = dict(cfg="MC_C02_quick.cfg", gen="MC_C02_gen_quick.cfg", per_stream=10, long=60)
THOROUGH = dict(cfg="MC_C02_thorough.cfg", gen="MC_C02_gen_thorough.cfg", per_stream=100, long=2000)


def run(ctx):
    P = THOROUGH if ctx.tier == "thorough" else QUICK
    ctx.build()
    # 1. design level: Parser.tla refines RESP.tla for EVERY partition of every stream
    mc = ctx.tlc("MC_C02", P["cfg"], name="MC_C02", workers=vlib.NCPU, timeout=2400)
    # 2. concrete partitions for replay (whole, all-1-byte, every 2-way, close 3-way splits)
    gen = ctx.tlc("MC_C02", P["gen"], name="MC_C02_gen", workers=vlib.NCPU, timeout=1200)
    scen = os.path.join(ctx.work, "c02_scen.jsonl")
    scenarios = gen.scenarios
    if ctx.replay:
        rp = json.load(open(ctx.replay))
        scenarios = [json.dumps({"stream": rp["event"]["stream"], "chunks": rp["event"]["chunks"]})]
        P = dict(P, per_stream=0, long=0)
    vlib.write_jsonl(scen, scenarios)
    trace = os.path.join(ctx.work, "c02.ndjson")
    ctx.harness(["c02", "--scenarios", scen, "--out", trace, "--seed", ctx.seed, "--random-per-stream",
                 P["per_stream"], "--long", P["long"]], timeout=1800)
    accepted, scs, lines = ctx.validate(trace, "TraceRESP", stateful=False)
    nontrivial = set()
    samples = []
    for sc in scs:
        ev = json.loads(lines[sc][0])
        if "stream" not in ev:     # periodic stream (chunkedrun): unit x run + tail
            ev["stream"] = (ev["unit"] * min(ev["run"], 30)) + ev["tail"]
            ev["res"] = ev["res"][:3] + ev["res"][-12:]
            ev["ends"] = ev["ends"][:3] + ev["ends"][-12:]
            ev["periodic"] = {"unit": bytes(ev["unit"]).decode("latin1"), "run": ev["run"]}
        cuts = cut_positions(ev["chunks"])
        inside = cuts - set(ev.get("ends", []))
        if inside:
            nontrivial.add((bytes(ev["stream"][:80]), tuple(ev["chunks"][:40])))
        if len(samples) < 3 and sc % 1013 == 5:
            samples.append({"stream": bytes(ev["stream"][:120]).decode("latin1"), "chunks": ev["chunks"][:40],
                            "values_returned": len(ev["res"]) - 1, "accepted": sc in accepted})
        if sc not in accepted:
            ctx.violation("chunked parse rejected: %sstream=%r chunks=%s res=%s" % (
                ("unit x %d then tail (shown shortened) " % ev["run"]) if "periodic" in ev else "",
                bytes(ev["stream"][:60]), ev["chunks"][:20], json.dumps(ev["res"])[:200]),
                {"event": {k: ev[k] for k in ("stream", "chunks", "res", "ends", "left")}})
    return ctx.finish("model_checking", {
        "states": mc.distinct, "transitions": mc.generated,
        "traces_validated_against_impl": len(scs),
        "evaluations": len(scs),
        "distinct_nontrivial": len(nontrivial),
        "rule": "Parser.tla explored for every partition of every stream (TLC, exhaustive); replayed partitions are "
                "TLC-exported (whole, all-1-byte, every 2-way split, 3-way splits with cuts <=2 bytes apart) plus seeded "
                "random k-way partitions and random long streams; non-trivial = a partition with at least one cut strictly "
                "inside a value, distinct by (stream, chunk sizes)",
        "samples": samples or [{"note": "sampling rule matched nothing"}],
        "exhaustive": True,
        "model_streams": len(set(json.loads(s)["stream"].__str__() for s in gen.scenarios)) if not ctx.replay else 1,
    }, assumptions=["zero-length reads with nil error are not produced (net.Conn never does)",
                    "the replayed partition set is a subset of the partitions the model covers exhaustively"])


def cut_positions(chunks):
    out = set()
    s = 0
    for c in chunks[:-1]:
        s += c
        out.add(s)
    return out
