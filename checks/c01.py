"""C01 - RESP values survive encode/decode; bulk payloads are binary-safe."""
import json
import os
import vlib

QUICK = dict(cfg="MC_C01_quick.cfg", random=300, big=10, floats=60)
THOROUGH = dict(cfg="MC_C01_thorough.cfg", random=20000, big=40, floats=5000)


def run(ctx):
    P = THOROUGH if ctx.tier == "thorough" else QUICK
    ctx.build()
    # 1. design level + generation: all value trees of the bounded space
    gen = ctx.tlc("MC_C01", P["cfg"], workers=vlib.NCPU, timeout=1500)
    scen = os.path.join(ctx.work, "c01_scen.jsonl")
    vlib.write_jsonl(scen, gen.scenarios)
    if ctx.replay:
        rp = json.load(open(ctx.replay))
        vlib.write_jsonl(scen, [{"v": rp["event"]["v"], "enc": rp["event"].get("enc", [])}])
        P = dict(P, random=0, big=0, floats=0)
    # 2. replay into the real constructors / serializer / parser
    trace = os.path.join(ctx.work, "c01.ndjson")
    ctx.harness(["c01", "--scenarios", scen, "--out", trace, "--seed", ctx.seed, "--random", P["random"],
                 "--big", P["big"], "--floats", P["floats"]])
    # 3. TLC judges every observation against RESP.tla
    accepted, scs, lines = ctx.validate(trace, "TraceRESP", stateful=False)
    shapes = set()
    samples = []
    for sc in scs:
        ev = json.loads(lines[sc][0])
        if ev["ev"] == "rt":
            shapes.add(shape(ev["v"]))
        if len(samples) < 3 and ev.get("src") in ("tlc", "random") and sc % 97 == 3:
            samples.append({"value": ev["v"], "serialized": bytes(ev["ser"]).decode("latin1"), "accepted": sc in accepted})
        if sc not in accepted:
            ctx.violation("round trip of %s rejected by TraceRESP!Check: %s" % (ev["ev"], json.dumps(ev)[:300]),
                          {"event": ev, "how": "bin/check C01 --replay <this file>"})
    nfloat = sum(1 for sc in scs if '"ev":"float"' in lines[sc][0])
    return ctx.finish("model_checking", {
        "traces_validated_against_impl": len(scs),
        "evaluations": len(scs),
        "distinct_nontrivial": len(shapes),
        "rule": "value trees enumerated by TLC (MC_C01: all leaves over the line/bulk alphabets up to the payload bound, "
                "all flat arrays up to the arity bound, nested arrays over a reduced leaf set) plus seeded random trees "
                "(payloads over all 256 byte values, CRLF+forged frames, arity up to 200, depth up to 6) and large "
                "binary bulks; distinct = distinct (type, payload-length, arity) skeletons",
        "samples": samples or [{"note": "no sample matched the sampling rule"}],
        "exhaustive": True,
        "tlc_value_trees": len(gen.scenarios),
        "aux_assertions": {"float_bit_exact_roundtrip_cases": nfloat,
                           "note": "float64 equality is outside TLC; the Go harness compares bits and the spec requires the flag"},
    }, assumptions=["TLC 32-bit integers: bulk lengths up to 9 digits are converted, longer ones classified 'huge'",
                    "random/large cases are sampled (seeded), the bounded space is enumerated completely"])


def shape(v):
    t = v["t"]
    if t == "arr":
        return "arr(" + ",".join(shape(e) for e in v["e"][:6]) + (",..%d" % len(v["e"]) if len(v["e"]) > 6 else "") + ")"
    if t == "null":
        return "null"
    return "%s%d" % (t, len(v["p"]))
