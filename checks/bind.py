"""BIND - self-test of the binding between TraceConn.tla and recorded traces (not a property).

Accepted traces of the unchanged tree are corrupted in ways that each break one clause the connection-level properties
state (a reply dropped, duplicated, reordered or altered; a handler call removed, given another connection's state, or
moved before its request was received; the server waiting with a request unanswered; the goroutine never returning).
Every corrupted trace must be rejected by TLC: a trace specification that accepts one of them has become too permissive.
Run as: bin/bindtest   (evidence goes to scratch; exit 0 = every corruption rejected, 1 = some corruption accepted)
"""
import json
import os
import random
import cmdlib
import connlib
import vlib


def events(lines):
    return [json.loads(l) for l in lines]


def idx(evs, pred):
    return [i for i, e in enumerate(evs) if pred(e)]


def m_drop_write(evs, rng):
    w = idx(evs, lambda e: e["ev"] == "write" and not e["failed"])
    if len(w) < 2:
        return None
    i = rng.choice(w[:-1])
    return evs[:i] + evs[i + 1:]


def m_dup_write(evs, rng):
    w = idx(evs, lambda e: e["ev"] == "write" and not e["failed"])
    if not w:
        return None
    i = rng.choice(w)
    return evs[:i + 1] + [dict(evs[i])] + evs[i + 1:]


def m_swap_writes(evs, rng):
    w = idx(evs, lambda e: e["ev"] == "write" and not e["failed"])
    # (two error replies, or an error and the reply to an odd frame, are interchangeable for the specification: only
    # pairs of different bulk replies are exchanged)
    pairs = [(a, b) for a, b in zip(w, w[1:]) if evs[a]["b"] != evs[b]["b"] and evs[a]["c"] == evs[b]["c"]
             and evs[a]["b"][:1] == [36] and evs[b]["b"][:1] == [36]]
    if not pairs:
        return None
    a, b = rng.choice(pairs)
    out = list(evs)
    out[a], out[b] = dict(evs[a], b=evs[b]["b"]), dict(evs[b], b=evs[a]["b"])
    return out


def m_corrupt_type(evs, rng):
    w = idx(evs, lambda e: e["ev"] == "write" and not e["failed"] and e["b"])
    if not w:
        return None
    i = rng.choice(w)
    out = list(evs)
    out[i] = dict(evs[i], b=[33] + evs[i]["b"][1:])          # '!' is not a RESP type
    return out


def m_truncate_reply(evs, rng):
    w = idx(evs, lambda e: e["ev"] == "write" and not e["failed"] and len(e["b"]) > 3)
    if len(w) < 2:
        return None
    i = rng.choice(w[:-1])                                    # an incomplete frame followed by the next reply
    out = list(evs)
    out[i] = dict(evs[i], b=evs[i]["b"][:-2])
    return out


def m_drop_call(evs, rng):
    c = idx(evs, lambda e: e["ev"] == "call")
    if not c:
        return None
    i = rng.choice(c)
    j = next((k for k in range(i + 1, len(evs)) if evs[k]["ev"] == "callret" and evs[k]["c"] == evs[i]["c"]), None)
    if j is None:
        return None
    return [e for k, e in enumerate(evs) if k not in (i, j)]


def m_call_db(evs, rng):
    c = idx(evs, lambda e: e["ev"] == "call")
    if not c:
        return None
    i = rng.choice(c)
    out = list(evs)
    out[i] = dict(evs[i], db=evs[i]["db"] + 7)
    return out


def m_call_unauth_flag(evs, rng):
    c = idx(evs, lambda e: e["ev"] == "call")
    if not c:
        return None
    i = rng.choice(c)
    out = list(evs)
    out[i] = dict(evs[i], auth=not evs[i]["auth"])
    return out


def m_call_early(evs, rng):
    """The handler runs before its request was received completely: the call pair is moved in front of the last send."""
    c = idx(evs, lambda e: e["ev"] == "call")
    if not c:
        return None
    i = c[0]
    j = next((k for k in range(i + 1, len(evs)) if evs[k]["ev"] == "callret" and evs[k]["c"] == evs[i]["c"]), None)
    s = [k for k in idx(evs, lambda e: e["ev"] == "send" and e["c"] == evs[i]["c"]) if k < i]
    r = [k for k in idx(evs, lambda e: e["ev"] == "reqs" and e["c"] == evs[i]["c"]) if k < i]
    if j is None or not s or not r or any(e["ev"] == "write" for e in evs[r[-1]:i]):
        return None                                           # only when the call belongs to the first request of its batch
    pair = [evs[i], evs[j]]
    rest = [e for k, e in enumerate(evs) if k not in (i, j)]
    at = rest.index(evs[r[-1]]) + 1                           # right after the batch was announced, before any byte was sent
    return rest[:at] + pair + rest[at:]


def m_early_block(evs, rng):
    """The server waits for input although a completely received request is unanswered."""
    w = idx(evs, lambda e: e["ev"] == "write" and not e["failed"])
    if not w:
        return None
    i = rng.choice(w)
    if i > 0 and evs[i - 1]["ev"] in ("call", "span"):
        return None
    return evs[:i] + [{"ev": "block", "c": evs[i]["c"], "sc": evs[i]["sc"], "written": 0}] + evs[i:]


def m_drop_return(evs, rng):
    r = idx(evs, lambda e: e["ev"] == "return")
    if not r:
        return None
    i = rng.choice(r)
    return evs[:i] + evs[i + 1:]


def m_drop_close(evs, rng):
    r = idx(evs, lambda e: e["ev"] == "close")
    if not r:
        return None
    i = rng.choice(r)
    return evs[:i] + evs[i + 1:]


def m_reply_after_quit(evs, rng):
    q = [k for k in idx(evs, lambda e: e["ev"] == "write" and not e["failed"] and bytes(e["b"]) == b"+OK\r\n")]
    c = idx(evs, lambda e: e["ev"] == "close")
    if not q or not c or c[0] < q[-1]:
        return None
    names = [r["name"] for e in evs if e["ev"] == "reqs" for r in e["reqs"]]
    if "QUIT" not in names or names[-1] == "QUIT":
        return None                                           # needs a request pipelined behind QUIT
    i = c[0]
    return evs[:i] + [dict(evs[q[-1]], b=list(b"+PONG\r\n"))] + evs[i:]


MUTATIONS = [m_drop_write, m_dup_write, m_swap_writes, m_corrupt_type, m_truncate_reply, m_drop_call, m_call_db, m_call_unauth_flag,
             m_call_early, m_early_block, m_drop_return, m_drop_close, m_reply_after_quit]


# ---- TraceServer (C15 / C19): corrupted lifecycle observations

def s_mut(evs, rng, pred, change):
    c = [i for i, e in enumerate(evs) if e["ev"] == "obs" and pred(e)]
    if not c or any(e["ev"] == "infeasible" for e in evs):
        return None
    i = rng.choice(c)
    out = list(evs)
    out[i] = change(dict(evs[i]))
    return out


def upd(**kw):
    return lambda e: dict(e, **kw)


SERVER_MUTATIONS = {
    "probe_not_served": lambda evs, rng: s_mut(evs, rng, lambda e: e["kind"] == "probe" and e["phase"] == "running" and e["served"], upd(served=False)),
    "probe_refused": lambda evs, rng: s_mut(evs, rng, lambda e: e["kind"] == "probe" and e["phase"] == "running" and e["dialed"], upd(dialed=False, served=False)),
    "port_still_bound": lambda evs, rng: s_mut(evs, rng, lambda e: e["kind"] == "bind" and e["phase"] == "stopped" and e["ok"], upd(ok=False)),
    "goroutine_left": lambda evs, rng: s_mut(evs, rng, lambda e: e["kind"] == "final" and e["phase"] == "stopped", lambda e: dict(e, goroutines=e["goroutines"] + 1)),
    "registry_not_empty": lambda evs, rng: s_mut(evs, rng, lambda e: e["kind"] == "final" and e["phase"] == "stopped", lambda e: dict(e, conns=e["conns"] + 1)),
    "client_open_after_stop": lambda evs, rng: s_mut(evs, rng, lambda e: e["kind"] == "client" and e["phase"] == "stopped" and e["state"] == "eof", upd(state="open")),
    "registry_lacks_served": lambda evs, rng: s_mut(evs, rng, lambda e: e["kind"] == "registry" and e["phase"] == "running" and not e["parked"] and e["served"],
                                                    lambda e: dict(e, conns=e["conns"][1:])),
    "registered_not_served": lambda evs, rng: s_mut(evs, rng, lambda e: e["kind"] == "registry" and e["phase"] == "running" and not e["parked"] and e["served"],
                                                    lambda e: dict(e, served=e["served"][1:])),
}


def m_ret_err(evs, rng):
    c = [i for i, e in enumerate(evs) if e["ev"] == "ret" and e["err"] == ""]
    if not c:
        return None
    i = rng.choice(c)
    out = list(evs)
    out[i] = dict(evs[i], err="listen tcp :6379: bind: address already in use")
    return out


def server_part(ctx, rng):
    import c15
    mc = ctx.tlc("MC_C15", "MC_C15_quick.cfg", name="MC_C15", workers=vlib.NCPU, timeout=1200)
    scripts = [json.loads(s) for s in mc.scenarios]
    chosen, _ = c15.select(scripts, 600, rng)
    accepted, scs, lines = c15.run_scripts(ctx, chosen, "bindlife")
    base = [sc for sc in scs if sc in accepted]
    if len(base) < len(scs):
        raise vlib.Inconclusive("%d of %d lifecycle scripts are rejected: run C15 first" % (len(scs) - len(base), len(scs)))
    muts = dict(SERVER_MUTATIONS, ret_err=m_ret_err)
    out = os.path.join(ctx.work, "bind_life_mut.ndjson")
    made = {}
    nid = 0
    with open(out, "w") as f:
        for name, m in sorted(muts.items()):
            cands = list(base)
            rng.shuffle(cands)
            n = 0
            for sc in cands:
                if n >= 100:
                    break
                mut = m(events(lines[sc]), rng)
                if mut is None:
                    continue
                nid += 1
                n += 1
                made[nid] = (name, sc)
                for e in mut:
                    f.write(json.dumps(dict(e, sc=nid), separators=(",", ":")) + "\n")
    acc2, scs2, lines2 = ctx.validate(out, "TraceServer", stateful=True, constants="CONSTANT Diagnose = FALSE\n")
    per = {}
    for k, (name, sc) in made.items():
        t = per.setdefault("server:" + name, [0, 0])
        t[0] += 1
        if k in acc2:
            t[1] += 1
            if t[1] <= 2:
                ctx.violation("corrupted lifecycle trace ACCEPTED by TraceServer (%s applied to script %d)" % (name, sc),
                              {"mutation": name, "trace": [json.loads(x) for x in lines2[k]][:200]})
    for name in muts:
        if "server:" + name not in per:
            raise vlib.Inconclusive("mutation %s was never applicable (vacuous self-test)" % name)
    return per, len(scs)


# ---- TraceLin (C16): corrupted concurrent histories

def lin_part(ctx, rng):
    import c16
    prim = ctx.tlc("MC_C16", c16.cfg(c16.PRIMS, False, ["Export"]), name="MC_C16_prims", workers=vlib.NCPU, timeout=1800)
    forced = [json.loads(x) for x in prim.scenarios]
    forced = rng.sample(forced, min(500, len(forced)))
    scen = os.path.join(ctx.work, "bindlin_scen.jsonl")
    vlib.write_jsonl(scen, forced)
    trace = os.path.join(ctx.work, "bindlin.ndjson")
    ctx.harness(["lin", "--scenarios", scen, "--out", trace], timeout=3600)
    accepted, scs, lines = c16.validate(ctx, trace, "{}", "bindlin")
    base = [sc for sc in scs if sc in accepted]
    if len(base) < len(scs):
        raise vlib.Inconclusive("%d of %d histories of single-primitive commands are not linearizable: run C16 first" % (len(scs) - len(base), len(scs)))

    def writes(evs, pred):
        return [i for i, e in enumerate(evs) if e["ev"] == "write" and not e.get("failed") and pred(bytes(e["b"]))]

    def m_int_plus_one(evs):      # :n -> :n+1  (a SETNX that did not win claims it did, a DEL that removed nothing claims 1, ...)
        # (0 -> 1 can be another legal linearization of overlapping commands; 1 -> 2 is impossible for SETNX and DEL of one key)
        w = writes(evs, lambda b: b[:1] == b":" and b[1:-2].isdigit() and int(b[1:-2]) >= 1)
        if not w:
            return None
        i = rng.choice(w)
        n = int(bytes(evs[i]["b"])[1:-2])
        out = list(evs)
        out[i] = dict(evs[i], b=list(b":%d\r\n" % (n + 1)))
        return out

    def m_value_never_written(evs):
        w = writes(evs, lambda b: b[:1] == b"$" and not b.startswith(b"$-1"))
        if not w:
            return None
        i = rng.choice(w)
        out = list(evs)
        out[i] = dict(evs[i], b=list(b"$5\r\nnever\r\n"))
        return out

    def m_nil_for_value(evs):
        w = writes(evs, lambda b: b[:1] == b"$" and not b.startswith(b"$-1"))
        if not w:
            return None
        i = rng.choice(w)
        if sum(1 for e in evs if e["ev"] == "reqs" and any(r["name"] in ("DEL", "GETSET", "SET", "SETNX") for r in e["reqs"])) > 1:
            pass
        out = list(evs)
        out[i] = dict(evs[i], b=list(b"$-1\r\n"))
        return out

    muts = {"lin:int_plus_one": m_int_plus_one, "lin:value_never_written": m_value_never_written}
    out = os.path.join(ctx.work, "bindlin_mut.ndjson")
    made = {}
    nid = 0
    with open(out, "w") as f:
        for name, m in sorted(muts.items()):
            cands = list(base)
            rng.shuffle(cands)
            n = 0
            for sc in cands:
                if n >= 100:
                    break
                mut = m(events(lines[sc]))
                if mut is None:
                    continue
                nid += 1
                n += 1
                made[nid] = (name, sc)
                for e in mut:
                    f.write(json.dumps(dict(e, sc=nid), separators=(",", ":")) + "\n")
    acc2, scs2, lines2 = c16.validate(ctx, out, "{}", "bindlin-mut")
    per = {}
    for k, (name, sc) in made.items():
        t = per.setdefault(name, [0, 0])
        t[0] += 1
        if k in acc2:
            t[1] += 1
            if t[1] <= 2:
                ctx.violation("corrupted history ACCEPTED as linearizable by TraceLin (%s applied to history %d)" % (name, sc),
                              {"mutation": name, "trace": [json.loads(x) for x in lines2[k]][:200]})
    for name in muts:
        if name not in per:
            raise vlib.Inconclusive("mutation %s was never applicable (vacuous self-test)" % name)
    return per


# ---- TraceTLS (C09): corrupted admission observations

def tls_part(ctx, rng):
    mc = ctx.tlc("MC_C09", "MC_C09.cfg", name="MC_C09", workers=4, timeout=600)
    scen = [json.loads(x) for x in mc.scenarios if json.loads(x)["pos"] == "between"]
    sp = os.path.join(ctx.work, "bindtls_scen.jsonl")
    vlib.write_jsonl(sp, scen)
    trace = os.path.join(ctx.work, "bindtls.ndjson")
    ctx.harness(["tlsgate", "--scenarios", sp, "--out", trace], timeout=3000)
    accepted, scs, lines = ctx.validate(trace, "TraceTLS", stateful=True, constants="CONSTANT Diagnose = FALSE\n")
    base = [sc for sc in scs if sc in accepted]
    if len(base) < len(scs):
        raise vlib.Inconclusive("%d of %d TLS scenarios are rejected: run C09 first" % (len(scs) - len(base), len(scs)))

    def mut(evs, pred, change):
        c = [i for i, e in enumerate(evs) if pred(e)]
        if not c:
            return None
        i = rng.choice(c)
        out = list(evs)
        out[i] = change(dict(evs[i]))
        return out
    muts = {
        "tls:outsider_served": lambda evs: mut(evs, lambda e: e["ev"] == "tlsclient" and not e["served"], lambda e: dict(e, hs=True, calls=1, served=True, disconnected=False)),
        "tls:outsider_executes": lambda evs: mut(evs, lambda e: e["ev"] == "tlsclient" and e["calls"] == 0, lambda e: dict(e, calls=1)),
        "tls:legitimate_refused": lambda evs: mut(evs, lambda e: e["ev"] == "tlsclient" and e["served"], lambda e: dict(e, served=False)),
        "tls:outsider_kept": lambda evs: mut(evs, lambda e: e["ev"] == "tlsclient" and not e["served"] and e["fault"] != "stall" and e["disconnected"], lambda e: dict(e, disconnected=False)),
        "tls:tls_listener_down": lambda evs: mut(evs, lambda e: e["ev"] == "probe" and e["tlsok"], lambda e: dict(e, tlsok=False)),
        "tls:plain_listener_down": lambda evs: mut(evs, lambda e: e["ev"] == "probe" and e["plainok"], lambda e: dict(e, plainok=False)),
    }
    out = os.path.join(ctx.work, "bindtls_mut.ndjson")
    made = {}
    nid = 0
    with open(out, "w") as f:
        for name, m in sorted(muts.items()):
            cands = list(base)
            rng.shuffle(cands)
            n = 0
            for sc in cands:
                if n >= 60:
                    break
                mu = m(events(lines[sc]))
                if mu is None:
                    continue
                nid += 1
                n += 1
                made[nid] = (name, sc)
                for e in mu:
                    f.write(json.dumps(dict(e, sc=nid), separators=(",", ":")) + "\n")
    acc2, scs2, lines2 = ctx.validate(out, "TraceTLS", stateful=True, constants="CONSTANT Diagnose = FALSE\n")
    per = {}
    for k, (name, sc) in made.items():
        t = per.setdefault(name, [0, 0])
        t[0] += 1
        if k in acc2:
            t[1] += 1
            if t[1] <= 2:
                ctx.violation("corrupted TLS trace ACCEPTED by TraceTLS (%s applied to scenario %d)" % (name, sc),
                              {"mutation": name, "trace": [json.loads(x) for x in lines2[k]][:60]})
    for name in muts:
        if name not in per:
            raise vlib.Inconclusive("mutation %s was never applicable (vacuous self-test)" % name)
    return per


def run(ctx):
    ctx.build()
    pipes = ctx.tlc("MC_C03", "MC_C03_quick.cfg", name="MC_C03", workers=vlib.NCPU, timeout=1800)
    cmds = ctx.tlc("MC_Cmd", "MC_Cmd_well_quick.cfg", name="MC_Cmd_well", workers=vlib.NCPU, timeout=1800)
    rng = random.Random(ctx.seed)
    scenarios = [dict(json.loads(s), tracer=False) for s in pipes.scenarios]
    scenarios = [s for s in scenarios if s["steps"][0]["chunking"] in ("whole", "bytes")]
    scenarios = rng.sample(scenarios, min(1200, len(scenarios)))
    vecs = [json.loads(s) for s in cmds.scenarios]
    scenarios += [cmdlib.wrap_vector(v) for v in rng.sample(vecs, min(600, len(vecs)))]
    accepted, scs, lines = connlib.run_scenarios(ctx, scenarios, "bind")
    base = [sc for sc in scs if sc in accepted]
    if len(base) < len(scs):
        raise vlib.Inconclusive("%d of %d base scenarios are rejected: run the property checks first" % (len(scs) - len(base), len(scs)))
    out = os.path.join(ctx.work, "bind_mut.ndjson")
    made = {}
    nid = 0
    with open(out, "w") as f:
        for m in MUTATIONS:
            cands = list(base)
            rng.shuffle(cands)
            n = 0
            for sc in cands:
                if n >= 150:
                    break
                mut = m(events(lines[sc]), rng)
                if mut is None:
                    continue
                nid += 1
                n += 1
                made[nid] = (m.__name__, sc)
                for e in mut:
                    f.write(json.dumps(dict(e, sc=nid), separators=(",", ":")) + "\n")
    acc2, scs2, lines2 = ctx.validate(out, "TraceConn", stateful=True, constants="CONSTANT Diagnose = FALSE\n")
    per = {}
    for k, (name, sc) in made.items():
        t = per.setdefault(name, [0, 0])
        t[0] += 1
        if k in acc2:
            t[1] += 1
            if t[1] <= 2:
                ctx.violation("corrupted trace ACCEPTED by TraceConn (%s applied to scenario %d)" % (name, sc),
                              {"mutation": name, "trace": [json.loads(x) for x in lines2[k]][:200]})
    sper, nscripts = server_part(ctx, rng)
    per.update(sper)
    per.update(lin_part(ctx, rng))
    per.update(tls_part(ctx, rng))
    for name, (n, a) in sorted(per.items()):
        print("BIND %-22s corrupted=%4d accepted=%d" % (name, n, a))
        if n == 0:
            raise vlib.Inconclusive("mutation %s was never applicable (vacuous self-test)" % name)
    return ctx.finish("model_checking", {
        "traces_validated_against_impl": len(scs), "evaluations": len(made), "distinct_nontrivial": len(per),
        "rule": "binding self-test: accepted traces corrupted by %d operators; every corrupted trace must be rejected" % len(MUTATIONS),
        "samples": [{"per_operator": per}], "exhaustive": False}, assumptions=[])
