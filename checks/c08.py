"""C08 - password gate: nothing but AUTH runs before the exact password was presented."""
import json
import os
import connlib
import vlib


def run(ctx):
    thorough = ctx.tier == "thorough"
    ctx.build()
    if ctx.replay:
        scenarios = [json.load(open(ctx.replay))["scenario"]]
        nmodel = nsim = 0
    else:
        mc = ctx.tlc("MC_C08", "MC_C08_thorough.cfg" if thorough else "MC_C08_quick.cfg", name="MC_C08", workers=vlib.NCPU, timeout=2400)
        sim = ctx.tlc("MC_C08", "MC_C08_sim.cfg", name="MC_C08_sim", workers=1, timeout=1200,
                      simulate="num=%d" % (3000 if thorough else 150), depth=31)
        scenarios = [json.loads(s) for s in mc.scenarios + sim.scenarios]
        nmodel, nsim = len(mc.scenarios), len(sim.scenarios)
        if nsim == 0:
            raise vlib.Inconclusive("TLC simulation exported no random walk")
        # a long password: credentials that agree with it on their first 512 or 1024 bytes only are not the password
        tok = lambda k, sym: {"k": k, "s": sym, "n": 0, "big": "", "f": "", "fs": "", "ex": False, "w": "", "cs": ""}
        R = lambda name, *a: {"cls": "c08", "name": name, "args": list(a)}
        for wrong in ("pw:long512", "pw:long1024", "pw:longcut", "pw:exact"):
            scenarios.append({"requirepass": "pw:long", "handler": "rec", "tracer": False, "nconns": 2, "steps": [
                {"c": 0, "op": "send", "reqs": [R("AUTH", tok("str", wrong)), R("GET", tok("key", "k1"))]},
                {"c": 1, "op": "send", "reqs": [R("GET", tok("key", "k1")), R("AUTH", tok("str", "u:default"), tok("str", wrong)), R("GET", tok("key", "k2"))]},
                {"c": 0, "op": "send", "reqs": [R("AUTH", tok("str", "pw:long")), R("GET", tok("key", "k1"))]},
                {"c": 1, "op": "send", "reqs": [R("GET", tok("key", "k2"))]}]})
        # the same server object has been run before (with the password, without one, and now with it again): a sample of
        # the scenarios is replayed on such a server
        scenarios += [dict(s, passcycle=True) for s in scenarios[::5] if s.get("requirepass")]
    ctx.stage("generate")
    accepted, scs, lines = connlib.run_scenarios(ctx, scenarios, "c08")
    groups = connlib.report(ctx, accepted, scs, lines, None)
    connlib.violations_from_groups(ctx, groups, lines, lambda sc: scenarios[sc // 10000 - 1])
    # the same gate on connections that arrive through the TLS port: a verified client certificate does not replace AUTH
    if not ctx.replay:
        tsc = [{"rule": r, "pass": True, "cred": c, "fault": "none", "pos": "between"} for r in (False, True) for c in ("ok", "wrongname")]
        tpath = os.path.join(ctx.work, "c08_tls_scen.jsonl")
        vlib.write_jsonl(tpath, tsc)
        ttrace = os.path.join(ctx.work, "c08_tls.ndjson")
        ctx.harness(["tlsgate", "--scenarios", tpath, "--out", ttrace], timeout=600)
        tacc, ts, tl = ctx.validate(ttrace, "TraceTLS", stateful=True, shards=1, constants="CONSTANT Diagnose = FALSE\n")
        for sc in ts:
            if sc not in tacc:
                idx, ev = connlib.diagnose(ctx, tl[sc], "TraceTLS")
                ctx.violation("TLS port with a password configured: %s" % json.dumps({k: v for k, v in ev.items() if k not in ("sc", "end")})[:300],
                              {"scenario": tsc[sc - 1], "event": ev})
        ctx.stage("tls-port")
    shapes = set()
    gated = 0
    for sc in scs:
        names = tuple(connlib.request_names(lines[sc]))
        shapes.add(names)
        if any(n.startswith("AUTH") or n.startswith("auth") for n in names):
            gated += 1
    samples = [{"requests": connlib.request_names(lines[sc]), "accepted": sc in accepted} for sc in scs[7:3000:1201]]
    return ctx.finish("model_checking", {
        "traces_validated_against_impl": len(scs), "evaluations": len(scs), "distinct_nontrivial": len(shapes),
        "rule": "MC_C08 checks AuthGate/PerConnection over every request sequence up to the length bound on all connections (dictionary: "
                "exact, empty, null, prefixes, suffix, case swap, NUL, CRLF, space, other; one-, two- and three-argument forms; other "
                "commands). Replayed: every sequence up to length 2 and every (auth state x request kind x connection), each followed by a "
                "GET probe on every connection, plus TLC-simulated random walks of length 30 on 3 connections. TraceConn rejects any "
                "recorded handler call on a connection whose model auth flag is false and any AUTH reply outside the rule. "
                "distinct = distinct request sequences",
        "samples": samples or [{"note": "replay"}], "exhaustive": True, "model_scenarios": nmodel, "random_walks": nsim,
        "scenarios_with_auth": gated,
    }, assumptions=["AUTH \"\" <exact> and surplus-argument forms containing the exact password may succeed or fail (the property is silent)",
                    "the server is started through Start() with both ports disabled, so the authenticator is registered by the production path"])
