"""C10 - ill-formed arguments are rejected without side effects."""
import json
import random
import connlib
import cmdlib
import vlib


def corrupt(rng, v):
    """Random corruption of a well-formed vector: delete / nullify / replace one or two positions."""
    args = [dict(a) for a in v["args"]]
    for _ in range(rng.choice([1, 1, 2])):
        if not args:
            break
        i = rng.randrange(len(args))
        op = rng.choice(["delete", "null", "junk", "float", "huge", "truncate"])
        if op == "delete":
            del args[i]
        elif op == "truncate":
            args = args[:i]
        elif op == "null":
            args[i] = cmdlib.tok("null")
        elif op == "junk":
            args[i] = cmdlib.tok("junk", rng.choice(["w:abc", "w:1x", "w:paren"]))
        elif op == "float":
            args[i] = cmdlib.tok("float", f="1.5")
        elif op == "huge":
            args[i] = cmdlib.tok("huge", "w:huge")
    return {"name": v["name"], "args": args, "st": "random"}


def run(ctx):
    thorough = ctx.tier == "thorough"
    ctx.build()
    if ctx.replay:
        scenarios = [json.load(open(ctx.replay))["scenario"]]
        vecs = []
    else:
        gen = ctx.tlc("MC_Cmd", "MC_Cmd_thorough.cfg" if thorough else "MC_Cmd_quick.cfg", name="MC_Cmd", workers=vlib.NCPU, timeout=1800)
        allv = [json.loads(s) for s in gen.scenarios]
        vecs = [v for v in allv if v["st"] == "ill"]
        well = [v for v in allv if v["st"] == "well"]
        rng = random.Random(ctx.seed)
        nrand = 20000 if thorough else 1500
        vecs += [corrupt(rng, rng.choice(well)) for _ in range(nrand)]
        scenarios = [cmdlib.wrap_vector(v) for v in vecs]
        # the same with a tracer installed (span bookkeeping reads the request too): every short vector, a sample of the rest
        scenarios += [cmdlib.wrap_vector(v, tracer=True) for i, v in enumerate(vecs) if len(v["args"]) <= 2 or i % 9 == 0]
        if not any(v["st"] == "ill" for v in vecs):
            raise vlib.Inconclusive("generator produced no ill-formed vector (vacuous)")
    ctx.stage("generate")
    accepted, scs, lines = connlib.run_scenarios(ctx, scenarios, "c10")
    groups = connlib.report(ctx, accepted, scs, lines, None)
    connlib.violations_from_groups(ctx, groups, lines, lambda sc: scenarios[sc // 10000 - 1])
    per_cmd = {}
    for v in vecs:
        if v["st"] == "ill":
            per_cmd[v["name"]] = per_cmd.get(v["name"], 0) + 1
    samples = [{"request": cmdlib.show(v), "class": v["st"]} for v in vecs[5:400:131]]
    return ctx.finish("model_checking", {
        "traces_validated_against_impl": len(scs), "evaluations": len(scs),
        "distinct_nontrivial": len(set(cmdlib.show(v) for v in vecs if v["st"] == "ill")),
        "rule": "MC_Cmd enumerates, for every handler-mapped command, the product of per-position pools (valid / null / non-numeric / "
                "overflowing / fractional), every truncation of the positional part and all token sequences up to the bound over the "
                "command's option/list/pair pool; Commands!Expect (the independent grammar) classifies each; the ill-formed ones are "
                "replayed as ECHO,X,ECHO and TraceConn requires an error reply, zero handler calls and a normal next reply. "
                "Random corruptions of well-formed vectors are classified by the same grammar at validation time. "
                "distinct = distinct ill-formed request texts",
        "samples": samples or [{"note": "replay"}], "exhaustive": True, "ill_formed_per_command": per_cmd,
    }, assumptions=["the grammar's 'unspecified' class (unknown option words, surplus positional arguments, option conflicts the "
                    "property does not list) only has to produce one reply frame"])
