"""C12 - commands the framework implements itself follow Redis semantics."""
import json
import connlib
import storelib
import vlib
from cmdlib import tok


def S(sym):
    return tok("str", sym)


def raw(b):
    t = tok("raw")
    t["raw"] = list(b)
    return t


def I(n):
    return tok("int", n=n)


def BIG(b):
    return tok("int", big=b)


def W(w):
    return tok("word", w=w)


def R(name, *args):
    return {"cls": "c12", "name": name, "args": list(args)}


def scen(reqs):
    return {"handler": "ref", "tracer": False, "nconns": 1, "model": True, "steps": [{"c": 0, "op": "send", "chunking": "perreq", "reqs": reqs}]}


def arithmetic(thorough):
    out = []
    # GETRANGE / SUBSTR: lengths 0..6 x start,end in -9..9 (complete)
    for cmd in ("GETRANGE", "SUBSTR"):
        for ln in range(0, 7):
            reqs = [R("SET", S("ka"), raw(b"abcdef"[:ln]))]
            for a in range(-9, 10):
                for b in range(-9, 10):
                    reqs.append(R(cmd, S("ka"), I(a), I(b)))
            out.append(scen(reqs))
        out.append(scen([R(cmd, S("missing"), I(0), I(-1)), R(cmd, S("missing"), I(2), I(1))]))
    # ZREVRANGE: sizes 0..5 x start,stop in -7..7 x {plain, WITHSCORES} (complete)
    members = [("ma", 1), ("mb", 2), ("mc", 2), ("md", 3), ("me", 5)]
    for size in range(0, 6):
        for ws in (False, True):
            reqs = [R("ZADD", S("za"), *[x for m, s in members[:size] for x in (I(s), S(m))])] if size else []
            for a in range(-7, 8):
                for b in range(-7, 8):
                    reqs.append(R("ZREVRANGE", S("za"), I(a), I(b), *([W("WITHSCORES")] if ws else [])))
            out.append(scen(reqs))
    # ZREVRANGEBYSCORE: bounds x LIMIT variants
    def bound(x):
        if x in ("-inf", "+inf"):
            return tok("float", f=x)
        if isinstance(x, str) and x.startswith("("):
            return tok("bound", f=x[1:], ex=True)
        return I(x)
    bounds = ["-inf", "(1", 1, 2, "(3", 3, "+inf", 0, 10]
    for size in (0, 3, 5):
        reqs = [R("ZADD", S("za"), *[x for m, s in members[:size] for x in (I(s), S(m))])] if size else []
        for hi in bounds:
            for lo in bounds:
                for lim in (None, (0, 1), (1, 2), (5, 2), (0, -1), (2, 0)):
                    for ws in (False, True):
                        args = [S("za"), bound(hi), bound(lo)] + ([W("WITHSCORES")] if ws else []) + ([W("LIMIT"), I(lim[0]), I(lim[1])] if lim else [])
                        reqs.append(R("ZREVRANGEBYSCORE", *args))
        out.append(scen(reqs))
    # counters: stored value x command x delta
    stored = [None, b"0", b"-1", b"9223372036854775807", b"9223372036854775806", b"-9223372036854775808", b"-9223372036854775807",
              b"1.5", b"abc", b"", b"12",
              # not the canonical decimal form: strings to Redis, although a lenient parser reads a number
              b"05", b"+5", b"-0", b"00", b" 5", b"5 ", b"0x10", b"1e3", b"-05", b"9223372036854775808"]
    deltas = [I(1), I(-1), I(5), BIG("max64"), BIG("min64")]
    for st in stored:
        for cmd in ("INCR", "DECR", "INCRBY", "DECRBY"):
            for d in (deltas if cmd.endswith("BY") else [None]):
                reqs = [R("SET", S("ka"), raw(st))] if st is not None else []
                reqs.append(R(cmd, S("ka"), *([d] if d else [])))
                reqs.append(R("GET", S("ka")))
                reqs.append(R(cmd, S("ka"), *([d] if d else [])))
                out.append(scen(reqs))
    # wide requests (more fields than any small-request fast path handles): repeated and missing fields, request order
    fields = ["f%02d" % i for i in range(45)]
    hm = [x for i, f in enumerate(fields[:40]) for x in (S(f), S("v%d" % (i % 3 + 1)))]
    for n in (31, 32, 33, 40, 70):
        want = [fields[(i * 7) % 44] for i in range(n)]           # wraps around: repeats, and f40..f43 are missing
        want[n // 2] = want[0]
        want[n - 1] = want[1]
        out.append(scen([R("HMSET", S("ha"), *hm), R("HMGET", S("ha"), *[S(f) for f in want]), R("HMGET", S("missing"), *[S(f) for f in want]),
                         R("HMSET", S("ha"), *(hm[:20] + [S("f03"), S("s:bin")] + hm[:6])), R("HMGET", S("ha"), *[S(f) for f in want]),
                         R("HLEN", S("ha")), R("HKEYS", S("ha")), R("HVALS", S("ha"))]))
        ks = ["k%02d" % ((i * 5) % 37) for i in range(n)]
        out.append(scen([R("MSET", *[x for i in range(30) for x in (S("k%02d" % i), S("v%d" % (i % 3 + 1)))]), R("MGET", *[S(k) for k in ks]),
                         R("MSETNX", *[x for k in ks for x in (S(k + "n"), S("v1"))]), R("MGET", *[S(k + "n") for k in ks])]))
    # derived write commands on a key that is about to expire: the remaining life is kept to the millisecond
    for cmd, extra in (("INCR", []), ("DECR", []), ("INCRBY", [I(5)]), ("DECRBY", [I(5)]), ("APPEND", [S("7")])):
        for px in (400, 999, 1500):
            sc = scen([R("SET", S("ka"), raw(b"5"), W("PX"), I(px)), R(cmd, S("ka"), *extra), R("GET", S("ka")), R("TTL", S("ka")),
                       R("SLEEP", I(px + 150)), R("GET", S("ka")), R("EXISTS", S("ka")), R(cmd, S("ka"), *extra), R("TTL", S("ka"))])
            out.append(storelib.split_sleeps(sc))
    # CONFIG SET / GET: request order, last value wins
    out.append(scen([R("CONFIG", W("SET"), S("c:save"), S("v1")), R("CONFIG", W("GET"), S("c:save")),
                     R("CONFIG", W("SET"), S("c:appendonly"), S("v2"), S("c:save"), S("v3")),
                     R("CONFIG", W("GET"), S("c:appendonly"), S("c:save")), R("CONFIG", W("GET"), S("c:save"), S("c:appendonly"), S("c:save")),
                     R("config", W("SET"), S("c:save"), S("v1"), S("c:save"), S("s:crlf")), R("CONFIG", W("GET"), S("c:save")),
                     R("CONFIG", W("GET"), S("c:never-set"), S("c:save"))]))
    # PING / ECHO
    out.append(scen([R("PING"), R("ping", S("t1")), R("PING", S("s:empty")), R("PING", S("s:bin")), R("ECHO", S("s:crlf")), R("ECHO", S("s:empty")), R("echo", S("s:bin"))]))
    return out


def run(ctx):
    thorough = ctx.tier == "thorough"
    ctx.build()
    if ctx.replay:
        scenarios = [json.load(open(ctx.replay))["scenario"]]
        counts = {}
    else:
        scenarios, counts = storelib.programs(ctx, "ref", 2, thorough, 3000 if thorough else 40, 20)
        ar = arithmetic(thorough)
        counts["arithmetic_scenarios"] = len(ar)
        counts["arithmetic_requests"] = sum(len(s["steps"][0]["reqs"]) for s in ar)
        scenarios += ar
    ctx.stage("generate")
    accepted, scs, lines = connlib.run_scenarios(ctx, scenarios, "c12")
    groups = connlib.report(ctx, accepted, scs, lines, None, max_diag=80)
    connlib.violations_from_groups(ctx, groups, lines, lambda sc: scenarios[sc // 10000 - 1])
    nreq = 0
    shapes = set()
    for sc in scs:
        names = connlib.request_names(lines[sc])
        nreq += len(names)
        shapes.add(tuple(n.split(" ")[0] for n in names[:40]))
    samples = [{"program": connlib.request_names(lines[sc])[:10], "accepted": sc in accepted} for sc in scs[9:9000:4001]]
    return ctx.finish("model_checking", {
        "traces_validated_against_impl": len(scs), "evaluations": nreq, "distinct_nontrivial": len(shapes),
        "rule": "reference store (harness/store.go, validated against RedisModel in the same traces) as the handler; programs of MC_Store (all "
                "commands incl. every framework-derived one, exhaustive up to length 2, TLC-simulated length 20) and complete index arithmetic: "
                "GETRANGE/SUBSTR lengths 0..6 x start,end in -9..9; ZREVRANGE sizes 0..5 x start,stop in -7..7 x {plain, WITHSCORES}; "
                "ZREVRANGEBYSCORE over 9x9 bounds (inclusive, exclusive, infinite) x 6 LIMIT variants x WITHSCORES on 3 sizes; counters over 11 "
                "stored values x 4 commands x 5 deltas incl. 64-bit edges; CONFIG SET/GET order and last-wins; PING/ECHO. TraceConn compares every "
                "reply with RedisModel!Exec and the store dump after each request with the model keyspace. evaluations = requests checked; "
                "distinct = distinct command-name sequences",
        "samples": samples or [{"note": "replay"}], "exhaustive": True, **counts,
    }, assumptions=["scores are integers and +-inf (no floats in TLC)", "decimal arithmetic on digit sequences models 64-bit overflow"])
