"""C06 - the parser is total on hostile input."""
import json
import os
import vlib

QUICK = dict(cfg="MC_C06_quick.cfg", mut="MC_C06_mut_quick.cfg", exhaustive=5, random=400, max_bytes=4096)
THOROUGH = dict(cfg="MC_C06_thorough.cfg", mut="MC_C06_mut_thorough.cfg", exhaustive=6, random=20000, max_bytes=65536)


def run(ctx):
    P = THOROUGH if ctx.tier == "thorough" else QUICK
    ctx.build()
    # 1. design level: Parser.tla on all short hostile strings, all delivery schedules
    mc = ctx.tlc("MC_C06", P["cfg"], name="MC_C06", workers=vlib.NCPU, timeout=2400)
    # 2. the TLA+ mutation model exports mutants of valid streams
    gen = ctx.tlc("MC_C06", P["mut"], name="MC_C06_mut", workers=vlib.NCPU, timeout=2400)
    scen = os.path.join(ctx.work, "c06_scen.jsonl")
    scenarios = gen.scenarios
    args = ["--exhaustive", P["exhaustive"], "--random", P["random"], "--max-bytes", P["max_bytes"]]
    if ctx.replay:
        rp = json.load(open(ctx.replay))
        scenarios = [json.dumps({"input": rp["event"]["input"]})]
        args = []
    vlib.write_jsonl(scen, scenarios)
    ctx.stage("tlc-model+mutants")
    trace = os.path.join(ctx.work, "c06.ndjson")
    ctx.harness(["c06", "--scenarios", scen, "--out", trace, "--seed", ctx.seed] + args, timeout=2400)
    ctx.stage("harness")
    accepted, scs, lines = ctx.validate(trace, "TraceRESP", stateful=False)
    ctx.stage("validate")
    classes = {}
    samples = []
    nontrivial = 0
    bad = []
    for sc in scs:
        ev = json.loads(lines[sc][0])
        last = ev["res"][-1]["t"] if ev["res"] else "dead"
        key = (ev["src"], last, len(ev["res"]))
        classes[key] = classes.get(key, 0) + 1
        if last != "eof" or not ev["alive"]:
            nontrivial += 1       # inputs the parser did not accept as a clean stream
        if len(samples) < 3 and sc % 3001 == 7:
            samples.append({"input": bytes(ev["input"][:80]).decode("latin1"), "outcomes": [r["t"] for r in ev["res"]][:8],
                            "accepted": sc in accepted})
        if sc not in accepted:
            bad.append(ev)
    # one violation per distinct failure signature (so that the list is readable), all counted
    sigs = {}
    for ev in bad:
        sigs.setdefault(signature(ev), []).append(ev)
    for sig, evs in sorted(sigs.items()):
        ev = min(evs, key=lambda e: len(e["input"]))
        ctx.violation("%s: %d input(s), shortest %r -> %s" % (sig, len(evs), bytes(ev["input"][:60]), [r["t"] for r in ev["res"]][:6]),
                      {"event": {"input": ev["input"], "res": ev["res"], "alive": ev["alive"]}, "count": len(evs)})
    return ctx.finish("model_checking", {
        "states": mc.distinct, "transitions": mc.generated,
        "traces_validated_against_impl": len(scs),
        "evaluations": len(scs),
        "distinct_nontrivial": nontrivial,
        "rule": "all byte strings up to the tier's length over {* $ + - 1 9 CR LF} (complete enumeration), mutants exported by the "
                "TLA+ mutation model MC_C06 (truncate/delete/duplicate/flip/splice/boundary numbers), seeded random mutants of "
                "random valid streams (some up to 1 MiB); array headers nested 10 .. 6 000 000 deep, complete and cut off (generated inside "
                "the worker, outcome types only); inputs with >=7-digit declared sizes and the nesting inputs run in a subprocess under ulimit -v; "
                "non-trivial = distinct inputs that are not a clean sequence of values (the parser had to answer error/partial)",
        "samples": samples or [{"note": "sampling rule matched nothing"}],
        "exhaustive": True,
        "outcome_classes": {"%s/%s/%d" % k: v for k, v in sorted(classes.items())[:60]},
        "rejected_inputs": len(bad),
    }, assumptions=["worker subprocess limit: ulimit -v 4 GiB; death of the worker is the observation for allocation bombs",
                    "coverage-guided fuzzing is not used (different technique); exhaustive short strings + mutation model stand in"])


def signature(ev):
    if not ev["alive"]:
        return "process died (allocation bomb / fatal error)"
    for r in ev["res"]:
        if r["t"] == "panic":
            return "panic: " + r.get("msg", "").split("\n")[0][:80]
    if "absent" in json.dumps(ev["res"]):
        return "array with absent elements returned"
    if ev["res"] and ev["res"][-1]["t"] == "toomany":
        return "parser does not terminate on the input"
    return "valid leading values not returned (SoundOnValid)"
