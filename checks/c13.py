"""C13 - connection-scoped state stays with its connection."""
import json
import cmdlib
import connlib
import vlib


def run(ctx):
    thorough = ctx.tier == "thorough"
    ctx.build()
    if ctx.replay:
        scenarios = [json.load(open(ctx.replay))["scenario"]]
        nmodel = nsim = 0
    else:
        mc = ctx.tlc("MC_C13", "MC_C13_thorough.cfg" if thorough else "MC_C13_quick.cfg", name="MC_C13", workers=vlib.NCPU, timeout=2400)
        # random interleavings for true concurrency: 6 connections, each driven by its own goroutine
        sim = ctx.tlc("MC_C13", "MC_C13_sim.cfg", name="MC_C13_sim", workers=1, timeout=1200,
                      simulate="num=%d" % (1500 if thorough else 60), depth=121)
        model_sc = mc.scenarios
        if len(model_sc) > 60000:     # thorough: every history is explored by TLC; a seeded sample of 60000 is replayed
            import random
            model_sc = random.Random(ctx.seed).sample(model_sc, 60000)
        scenarios = [json.loads(s) for s in model_sc + sim.scenarios]
        nmodel, nsim = len(model_sc), len(sim.scenarios)
        if nsim == 0:
            raise vlib.Inconclusive("TLC simulation exported no concurrent scenario")
    if not ctx.replay:
        # an application's own AUTH handler (SetAuthCommandHandler) that refuses without a Go error (an error reply, a status,
        # nothing at all): the connection's authorization does not change through a command that did not succeed, and the
        # closing of one connection (however it ends) leaves nothing behind for the next
        tok = cmdlib.tok
        R = lambda name, *a: {"cls": "c13", "name": name, "args": list(a)}
        for pw in ("k:crstr", "k:nil", "k:status", "k:err", "k:null", "k1"):
            scenarios.append({"requirepass": "pw:exact", "handler": "rec", "authdouble": True, "tracer": False, "nconns": 2, "steps": [
                {"c": 0, "op": "send", "reqs": [R("GET", tok("key", "k1"))]},
                {"c": 0, "op": "send", "reqs": [R("AUTH", tok("key", pw))]},
                {"c": 0, "op": "send", "reqs": [R("GET", tok("key", "k1")), R("SET", tok("key", "k:ud=a"), tok("str", "v1"))]},
                {"c": 1, "op": "send", "reqs": [R("GET", tok("key", "k2"))]}]})
        # database ids beyond 32 bits are ids of their own, not their low bits (every big id is "-1" to the specification)
        for big in ("2^32", "2^32+2", "2^40+1", "max64", "2^31"):
            scenarios.append({"requirepass": "", "handler": "rec", "tracer": False, "nconns": 2, "steps": [
                {"c": 0, "op": "send", "reqs": [R("SELECT", tok("int", n=2)), R("SELECT", tok("int", big=big)), R("GET", tok("key", "k1"))]},
                {"c": 1, "op": "send", "reqs": [R("GET", tok("key", "k1")), R("SELECT", tok("int", n=1))]},
                {"c": 0, "op": "send", "reqs": [R("SET", tok("key", "k2"), tok("str", "v1")), R("SELECT", tok("int", n=2)), R("GET", tok("key", "k1"))]},
                {"c": 1, "op": "send", "reqs": [R("GET", tok("key", "k2"))]}]})
        # Stop with connections open, Start again: the connections of the new run start from the defaults and are as separate
        # from each other as any (whatever the server recycles from the connections that Stop closed)
        for nold in (1, 2, 3):
            steps = [{"c": c, "op": "send", "reqs": [R("SELECT", tok("int", n=c + 3)), R("SET", tok("key", "k:ud=a"), tok("str", "v1"))]} for c in range(nold)]
            steps += [{"c": 0, "op": "stop"}, {"c": 0, "op": "start"}]
            a, b, c3 = nold, nold + 1, nold + 2
            steps += [{"c": a, "op": "send", "reqs": [R("GET", tok("key", "k1")), R("SELECT", tok("int", n=2))]},
                      {"c": b, "op": "send", "reqs": [R("GET", tok("key", "k1")), R("SET", tok("key", "k:ud=b"), tok("str", "v1"))]},
                      {"c": c3, "op": "send", "reqs": [R("GET", tok("key", "k2"))]},
                      {"c": a, "op": "send", "reqs": [R("GET", tok("key", "k2"))]},
                      {"c": b, "op": "send", "reqs": [R("SELECT", tok("int", n=1)), R("GET", tok("key", "k2"))]},
                      {"c": c3, "op": "send", "reqs": [R("GET", tok("key", "k1"))]},
                      {"c": a, "op": "send", "reqs": [R("GET", tok("key", "k1"))]}]
            for rp in ("", "pw:exact"):
                st2 = [dict(x) for x in steps]
                if rp:
                    for x in st2:
                        if x["op"] == "send":
                            x["reqs"] = ([R("AUTH", tok("str", "pw:exact"))] if x["c"] != c3 else []) + x["reqs"]
                scenarios.append({"requirepass": rp, "handler": "rec", "tracer": False, "nconns": nold + 3, "steps": st2})
        for how in ("fullclose", "halfclose"):
            for closefail in (False, True):
                scenarios.append({"requirepass": "", "handler": "rec", "tracer": False, "nconns": 3, "closefail": closefail, "steps": [
                    {"c": 0, "op": "send", "reqs": [R("SELECT", tok("int", n=2)), R("SET", tok("key", "k:ud=a"), tok("str", "v1")), R("GET", tok("key", "k1"))]},
                    {"c": 0, "op": how},
                    {"c": 1, "op": "send", "reqs": [R("GET", tok("key", "k1"))]},
                    {"c": 1, "op": how},
                    {"c": 2, "op": "send", "reqs": [R("GET", tok("key", "k2")), R("SET", tok("key", "k:ud=b"), tok("str", "v1")), R("GET", tok("key", "k1"))]}]})
    ctx.stage("generate")
    accepted, scs, lines = connlib.run_scenarios(ctx, scenarios, "c13")
    groups = connlib.report(ctx, accepted, scs, lines, None)
    connlib.violations_from_groups(ctx, groups, lines, lambda sc: scenarios[sc // 10000 - 1])
    ncalls = 0
    shapes = set()
    for sc in scs:
        shapes.add(tuple(connlib.request_names(lines[sc])[:12]))
        ncalls += sum(1 for ln in lines[sc] if '"ev":"call"' in ln)
    samples = [{"requests": connlib.request_names(lines[sc])[:10], "accepted": sc in accepted} for sc in scs[5:4000:1999]]
    return ctx.finish("model_checking", {
        "traces_validated_against_impl": len(scs), "evaluations": len(scs), "distinct_nontrivial": len(shapes),
        "rule": "MC_C13 enumerates every interleaved history up to the length bound over {SELECT 0/1/2, SELECT bad, AUTH exact/wrong, data "
                "command, handler-side user-data store a/b} on 2 connections, with and without a required password, and checks that a step "
                "only changes its own connection's state; each history is replayed lock-step and ends with a probe on every connection; "
                "TLC-simulated long histories run with one driver goroutine per connection (6 connections, true concurrency). Inside every "
                "handler call the double logs Database(), IsAuthrized() and the connection's sync.Map entry; TraceConn compares them with "
                "the fold of that connection's own accepted requests. distinct = distinct request sequences",
        "samples": samples or [{"note": "replay"}], "exhaustive": True, "model_histories": nmodel, "concurrent_runs": nsim,
        "handler_calls_checked": ncalls,
    }, assumptions=["concurrent runs rely only on per-connection event order (the trace specification keeps independent state per connection)"])
