package main

import (
	"bufio"
	"encoding/json"
	"os"
	"sync"
)

// Ev is one trace event (one ndjson line).
type Ev map[string]any

// Recorder writes ndjson events; all goroutines append under one lock, so the
// line order is a total order consistent with every lock-induced edge.
type Recorder struct {
	mu  sync.Mutex
	f   *os.File
	w   *bufio.Writer
	n   int // lines written
	sc  int // current scenario id
	err error
}

func NewRecorder(path string) (*Recorder, error) {
	f, err := os.Create(path)
	if err != nil {
		return nil, err
	}
	return &Recorder{f: f, w: bufio.NewWriterSize(f, 1<<20)}, nil
}

// Begin starts scenario sc (ids are chosen by the driver).
func (r *Recorder) Begin(sc int) {
	r.mu.Lock()
	r.sc = sc
	r.mu.Unlock()
}

// Emit appends one event to the current scenario.
func (r *Recorder) Emit(ev Ev) {
	r.mu.Lock()
	defer r.mu.Unlock()
	ev["sc"] = r.sc
	r.n++
	b, err := json.Marshal(ev)
	if err != nil {
		r.err = err
		return
	}
	r.w.Write(b)
	r.w.WriteByte('\n')
}

// End closes the current scenario with its end marker.
func (r *Recorder) End() {
	r.Emit(Ev{"ev": "end"})
	r.mu.Lock()
	r.w.Flush() // a crash of the code under test must not lose the scenarios recorded so far
	r.mu.Unlock()
}

func (r *Recorder) Close() error {
	r.w.Flush()
	if r.err != nil {
		return r.err
	}
	return r.f.Close()
}

// B converts bytes to the JSON form the specification reads ([]int, never null).
func B(b []byte) []int {
	out := make([]int, len(b))
	for i, x := range b {
		out[i] = int(x)
	}
	return out
}

func BS(s string) []int { return B([]byte(s)) }

func unB(x []int) []byte {
	out := make([]byte, len(x))
	for i, v := range x {
		out[i] = byte(v)
	}
	return out
}
