package main

import (
	"bufio"
	"crypto/tls"
	"flag"
	"fmt"
	"net"
	"strconv"
	"strings"
	"sync"
	"time"

	exserver "github.com/cybergarage/go-redis/examples/go-redisd/server"
	"github.com/cybergarage/go-redis/redis/auth"
)

// idle: a client that is simply quiet between two requests (C03: no request makes the connection stall and the reply to a
// fully received request is written; C15: the server serves its connections until Stop).  One connection per port kind and
// idle time: PING, nothing for idle-ms, PING.  Only measured here; TraceRESP!IdleOK judges (both replies must be PONG).
func cmdIdle(args []string) {
	fs := flag.NewFlagSet("idle", flag.ExitOnError)
	out := fs.String("out", "", "trace file")
	idles := fs.String("idle-ms", "1000,11000,31000", "idle times (comma separated)")
	fs.Parse(args)
	rec, err := NewRecorder(*out)
	must(err)
	p := newPKI()
	es := exserver.NewServer()
	plain, tlsp := freePort(), freePort()
	es.SetPort(plain)
	es.SetTLSPort(tlsp)
	es.ServerCert, es.ServerKey, es.CACerts = p.serverPEM, p.keyPEM, p.rootPEM
	es.AddAuthenticator(auth.NewCertificateAuthenticatorWith(auth.WithCommonName(ruleName)))
	must(es.Start())
	defer es.Stop()
	ping := func(c net.Conn, rd *bufio.Reader) string {
		c.SetDeadline(time.Now().Add(3 * time.Second))
		if _, err := c.Write(request("PING")); err != nil {
			return "write-error"
		}
		line, err := rd.ReadString('\n')
		switch {
		case err == nil && line == "+PONG\r\n":
			return "pong"
		case err == nil:
			return "other"
		default:
			if ne, ok := err.(net.Error); ok && ne.Timeout() {
				return "timeout"
			}
			return "eof"
		}
	}
	var mu sync.Mutex
	var evs []Ev
	var wg sync.WaitGroup
	for _, f := range strings.Split(*idles, ",") {
		ms, err := strconv.Atoi(strings.TrimSpace(f))
		must(err)
		for _, kind := range []string{"plain", "tls"} {
			wg.Add(1)
			go func(kind string, ms int) {
				defer wg.Done()
				ev := Ev{"ev": "idle", "port": kind, "idle_ms": ms, "before": "dial-error", "after": "none"}
				defer func() { mu.Lock(); evs = append(evs, ev); mu.Unlock() }()
				var c net.Conn
				raw, err := net.DialTimeout("tcp", fmt.Sprintf("127.0.0.1:%d", map[string]int{"plain": plain, "tls": tlsp}[kind]), time.Second)
				if err != nil {
					return
				}
				defer raw.Close()
				c = raw
				if kind == "tls" {
					tc := tls.Client(raw, &tls.Config{RootCAs: p.rootPool, ServerName: "localhost", Certificates: p.clients["ok"], MinVersion: tls.VersionTLS12})
					raw.SetDeadline(time.Now().Add(3 * time.Second))
					if tc.Handshake() != nil {
						ev["before"] = "handshake-error"
						return
					}
					c = tc
				}
				rd := bufio.NewReader(c)
				ev["before"] = ping(c, rd)
				time.Sleep(time.Duration(ms) * time.Millisecond)
				ev["after"] = ping(c, rd)
			}(kind, ms)
		}
	}
	wg.Wait()
	for i, ev := range evs {
		rec.Begin(i + 1)
		rec.Emit(ev)
	}
	must(rec.Close())
	fmt.Printf("idle: %d connections\n", len(evs))
}

func init() { commands["idle"] = cmdIdle }
