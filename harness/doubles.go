package main

import (
	"context"
	"errors"
	"fmt"
	"strings"
	"sync"
	"sync/atomic"
	"time"

	"github.com/cybergarage/go-redis/redis"
	"github.com/cybergarage/go-tracing/tracer"
	"github.com/cybergarage/go-tracing/tracer/common"
)

// ---------------------------------------------------------------- recHandler

// recHandler is the UserCommandHandler/AuthCommandHandler test double: it
// records every call (method, decoded arguments mapped back to symbols, the
// connection state seen inside the call) and returns a result scripted by the
// first key's directive ("k:err", "k:nil", ...).
type recHandler struct {
	rec    *Recorder
	server *redis.Server
	t0     func(c int) time.Time // when the current request of connection c was sent
}

func connID(conn *redis.Conn) int {
	if sc, ok := conn.Conn.(*sconn); ok {
		return sc.id
	}
	// the server may have wrapped the transport (deadlines, buffering, counting): the scripted connection's address names it
	var id int
	if _, err := fmt.Sscanf(conn.RemoteAddr().String(), "client-%d", &id); err == nil {
		return id
	}
	return -1
}

type result struct {
	kind string // val goerr nilmsg both
	v    Val
	msg  string
}

func (r result) ret() (*redis.Message, error) {
	switch r.kind {
	case "goerr":
		return nil, errors.New(r.msg)
	case "nilmsg":
		return nil, nil
	case "both":
		m, _ := Build(r.v)
		return m, errors.New(r.msg)
	}
	m, err := buildRaw(r.v)
	if err != nil {
		return nil, err
	}
	return m, nil
}

func (r result) json() Ev {
	switch r.kind {
	case "goerr":
		return Ev{"t": "goerr", "msg": BS(r.msg)}
	case "nilmsg":
		return Ev{"t": "nilmsg"}
	case "both":
		return Ev{"t": "both", "v": r.v, "msg": BS(r.msg)}
	}
	return Ev{"t": "val", "v": r.v}
}

// scripted results, selected by the symbol of the first key argument
func scripted(method string, key string) result {
	switch key {
	case "k:err":
		return result{kind: "goerr", msg: "boom from handler"}
	case "k:crlferr":
		return result{kind: "goerr", msg: "bad\r\n+OK"}
	case "k:emptyerr":
		return result{kind: "goerr", msg: ""}
	case "k:nil":
		return result{kind: "nilmsg"}
	case "k:both":
		return result{kind: "both", v: Val{T: "bulk", P: []byte("ignored")}, msg: "both given"}
	case "k:crlfstr":
		return result{kind: "val", v: Val{T: "str", P: []byte("x\r\n+FORGED")}}
	case "k:lfstr":
		return result{kind: "val", v: Val{T: "str", P: []byte("x\ny")}}
	case "k:crstr":
		return result{kind: "val", v: Val{T: "err", P: []byte("x\ry")}}
	case "k:intbad":
		return result{kind: "val", v: Val{T: "int", P: []byte("12\r\n:13")}}
	case "k:arr":
		return result{kind: "val", v: Val{T: "arr", E: []Val{{T: "bulk", P: []byte("a\r\nb")}, {T: "null"}, {T: "int", P: []byte("7")}}}}
	case "k:nested":
		return result{kind: "val", v: Val{T: "arr", E: []Val{{T: "arr", E: []Val{{T: "str", P: []byte("in")}}}, {T: "arr", E: []Val{}}}}}
	case "k:arrnil":
		return result{kind: "val", v: Val{T: "arr", E: []Val{{T: "str", P: []byte("a\r\n-ERR x")}}}}
	case "k:null":
		return result{kind: "val", v: Val{T: "null"}}
	case "k:int":
		return result{kind: "val", v: Val{T: "int", P: []byte("-42")}}
	case "k:status":
		return result{kind: "val", v: Val{T: "str", P: []byte("FINE")}}
	case "k:binary":
		return result{kind: "val", v: Val{T: "bulk", P: []byte(allBytes)}}
	}
	return result{kind: "val", v: Val{T: "bulk", P: []byte("R:" + method)}}
}

// buildRaw builds a message for a Val without requiring well-formed payloads
// (handlers may return anything).
func buildRaw(v Val) (*redis.Message, error) {
	switch v.T {
	case "int":
		return redisIntRaw(v.P), nil
	case "arr":
		m := redis.NewArrayMessage()
		for _, e := range v.E {
			c, err := buildRaw(e)
			if err != nil {
				return nil, err
			}
			m.Append(c)
		}
		return m, nil
	}
	return Build(v)
}

func (h *recHandler) call(conn *redis.Conn, method string, key string, args []any, opt Ev) (*redis.Message, error) {
	c := connID(conn)
	_, inreg := h.server.ConnByUUID(conn.UUID())
	ud := ""
	if v, ok := conn.Load("ud"); ok {
		ud, _ = v.(string)
	}
	lag := 0
	if h.t0 != nil {
		lag = int(time.Since(h.t0(c)).Milliseconds())
	}
	ev := Ev{"ev": "call", "c": c, "m": method, "a": args, "db": dbRec(conn.Database()), "auth": conn.IsAuthrized(), "inreg": inreg, "ud": ud, "lag_ms": lag}
	if opt == nil {
		opt = Ev{"none": true}
	}
	ev["opt"] = opt
	h.rec.Emit(ev)
	ks := symOf(key)
	if strings.HasPrefix(ks, "k:ud=") {
		conn.Store("ud", strings.TrimPrefix(ks, "k:ud="))
	}
	res := scripted(method, ks)
	h.rec.Emit(Ev{"ev": "callret", "c": c, "m": method, "res": res.json()})
	return res.ret()
}

func A(xs ...any) []any { return xs }
func L(ss []string) Ev  { return Ev{"l": strList(ss)} }
func first(ss []string) string {
	if len(ss) > 0 {
		return ss[0]
	}
	return ""
}

func msOf(d time.Duration) Ev { return intRec(int(d.Milliseconds())) }
func unixOf(t time.Time, ms bool) Ev {
	if t.IsZero() {
		return Ev{"n": 0}
	}
	if ms {
		return intRec(int(t.UnixMilli()))
	}
	return intRec(int(t.Unix()))
}

func (h *recHandler) Del(conn *redis.Conn, keys []string) (*redis.Message, error) {
	return h.call(conn, "Del", first(keys), A(L(keys)), nil)
}
func (h *recHandler) Exists(conn *redis.Conn, keys []string) (*redis.Message, error) {
	return h.call(conn, "Exists", first(keys), A(L(keys)), nil)
}
func (h *recHandler) Expire(conn *redis.Conn, key string, opt redis.ExpireOption) (*redis.Message, error) {
	rel := int(time.Until(opt.Time).Milliseconds())
	return h.call(conn, "Expire", key, A(strRec(key)), Ev{"NX": opt.NX, "XX": opt.XX, "GT": opt.GT, "LT": opt.LT,
		"unix": unixOf(opt.Time, false), "rel_ms": intRec(rel)})
}
func (h *recHandler) Keys(conn *redis.Conn, pattern string) (*redis.Message, error) {
	return h.call(conn, "Keys", pattern, A(strRec(pattern)), nil)
}
func (h *recHandler) Rename(conn *redis.Conn, key string, newkey string, opt redis.RenameOption) (*redis.Message, error) {
	return h.call(conn, "Rename", key, A(strRec(key), strRec(newkey)), Ev{"NX": opt.NX})
}
func (h *recHandler) Type(conn *redis.Conn, key string) (*redis.Message, error) {
	return h.call(conn, "Type", key, A(strRec(key)), nil)
}
func (h *recHandler) TTL(conn *redis.Conn, key string) (*redis.Message, error) {
	return h.call(conn, "TTL", key, A(strRec(key)), nil)
}

var probeKeys = []string{"", "a", "k1", "k2", "ab", "a.c", "abc", "k*", "*", "x(y"}

func (h *recHandler) Scan(conn *redis.Conn, cursor int, opt redis.ScanOption) (*redis.Message, error) {
	// the compiled pattern is observed behaviourally on a probe key set
	match := []int{}
	if opt.MatchPattern != nil {
		for i, k := range probeKeys {
			if opt.MatchPattern.MatchString(k) {
				match = append(match, i+1)
			}
		}
	}
	return h.call(conn, "Scan", "", A(intRec(cursor)), Ev{"Count": intRec(opt.Count), "Type": int(opt.Type), "matches": match, "haspattern": opt.MatchPattern != nil})
}
func (h *recHandler) Set(conn *redis.Conn, key string, val string, opt redis.SetOption) (*redis.Message, error) {
	return h.call(conn, "Set", key, A(strRec(key), strRec(val)), Ev{"NX": opt.NX, "XX": opt.XX, "KEEPTTL": opt.KEEPTTL, "GET": opt.GET,
		"EX_ms": msOf(opt.EX), "PX_ms": msOf(opt.PX), "EXAT": unixOf(opt.EXAT, false), "PXAT_ms": unixOf(opt.PXAT, true)})
}
func (h *recHandler) Get(conn *redis.Conn, key string) (*redis.Message, error) {
	return h.call(conn, "Get", key, A(strRec(key)), nil)
}
func (h *recHandler) HDel(conn *redis.Conn, key string, fields []string) (*redis.Message, error) {
	return h.call(conn, "HDel", key, A(strRec(key), L(fields)), nil)
}
func (h *recHandler) HSet(conn *redis.Conn, key string, field string, val string, opt redis.HSetOption) (*redis.Message, error) {
	return h.call(conn, "HSet", key, A(strRec(key), strRec(field), strRec(val)), Ev{"NX": opt.NX})
}
func (h *recHandler) HGet(conn *redis.Conn, key string, field string) (*redis.Message, error) {
	return h.call(conn, "HGet", key, A(strRec(key), strRec(field)), nil)
}
func (h *recHandler) HGetAll(conn *redis.Conn, key string) (*redis.Message, error) {
	return h.call(conn, "HGetAll", key, A(strRec(key)), nil)
}
func (h *recHandler) LPush(conn *redis.Conn, key string, elements []string, opt redis.PushOption) (*redis.Message, error) {
	return h.call(conn, "LPush", key, A(strRec(key), L(elements)), Ev{"X": opt.X})
}
func (h *recHandler) RPush(conn *redis.Conn, key string, elements []string, opt redis.PushOption) (*redis.Message, error) {
	return h.call(conn, "RPush", key, A(strRec(key), L(elements)), Ev{"X": opt.X})
}
func (h *recHandler) LPop(conn *redis.Conn, key string, count int) (*redis.Message, error) {
	return h.call(conn, "LPop", key, A(strRec(key), intRec(count)), nil)
}
func (h *recHandler) RPop(conn *redis.Conn, key string, count int) (*redis.Message, error) {
	return h.call(conn, "RPop", key, A(strRec(key), intRec(count)), nil)
}
func (h *recHandler) LRange(conn *redis.Conn, key string, start int, stop int) (*redis.Message, error) {
	return h.call(conn, "LRange", key, A(strRec(key), intRec(start), intRec(stop)), nil)
}
func (h *recHandler) LIndex(conn *redis.Conn, key string, index int) (*redis.Message, error) {
	return h.call(conn, "LIndex", key, A(strRec(key), intRec(index)), nil)
}
func (h *recHandler) LLen(conn *redis.Conn, key string) (*redis.Message, error) {
	return h.call(conn, "LLen", key, A(strRec(key)), nil)
}
func (h *recHandler) SAdd(conn *redis.Conn, key string, members []string) (*redis.Message, error) {
	return h.call(conn, "SAdd", key, A(strRec(key), L(members)), nil)
}
func (h *recHandler) SMembers(conn *redis.Conn, key string) (*redis.Message, error) {
	return h.call(conn, "SMembers", key, A(strRec(key)), nil)
}
func (h *recHandler) SRem(conn *redis.Conn, key string, members []string) (*redis.Message, error) {
	return h.call(conn, "SRem", key, A(strRec(key), L(members)), nil)
}
func zopt(opt redis.ZRangeOption) Ev {
	return Ev{"BYSCORE": opt.BYSCORE, "BYLEX": opt.BYLEX, "REV": opt.REV, "WITHSCORES": opt.WITHSCORES, "MINEX": opt.MINEXCLUSIVE,
		"MAXEX": opt.MAXEXCLUSIVE, "Offset": intRec(opt.Offset), "Count": intRec(opt.Count)}
}
func (h *recHandler) ZAdd(conn *redis.Conn, key string, members []*redis.ZSetMember, opt redis.ZAddOption) (*redis.Message, error) {
	ms := []Ev{}
	for _, m := range members {
		if m == nil {
			ms = append(ms, Ev{"f": "nil", "s": "nil"})
			continue
		}
		ms = append(ms, Ev{"f": floatRec(m.Score)["f"], "s": symOf(m.Member)})
	}
	return h.call(conn, "ZAdd", key, A(strRec(key), Ev{"l": ms}), Ev{"XX": opt.XX, "NX": opt.NX, "LT": opt.LT, "GT": opt.GT, "CH": opt.CH, "INCR": opt.INCR})
}
func (h *recHandler) ZRange(conn *redis.Conn, key string, start int, stop int, opt redis.ZRangeOption) (*redis.Message, error) {
	return h.call(conn, "ZRange", key, A(strRec(key), intRec(start), intRec(stop)), zopt(opt))
}
func (h *recHandler) ZRangeByScore(conn *redis.Conn, key string, min float64, max float64, opt redis.ZRangeOption) (*redis.Message, error) {
	return h.call(conn, "ZRangeByScore", key, A(strRec(key), floatRec(min), floatRec(max)), zopt(opt))
}
func (h *recHandler) ZRem(conn *redis.Conn, key string, members []string) (*redis.Message, error) {
	return h.call(conn, "ZRem", key, A(strRec(key), L(members)), nil)
}
func (h *recHandler) ZScore(conn *redis.Conn, key string, member string) (*redis.Message, error) {
	return h.call(conn, "ZScore", key, A(strRec(key), strRec(member)), nil)
}
func (h *recHandler) ZIncBy(conn *redis.Conn, key string, inc float64, member string) (*redis.Message, error) {
	return h.call(conn, "ZIncBy", key, A(strRec(key), floatRec(inc), strRec(member)), nil)
}

// Auth (installed only when a scenario asks for the auth double)
func (h *recHandler) Auth(conn *redis.Conn, username string, password string) (*redis.Message, error) {
	return h.call(conn, "Auth", password, A(strRec(username), strRec(password)), nil)
}

// ---------------------------------------------------------------- recTracer

// recTracer is a tracer.Tracer whose spans have ids and log start/finish.
type recTracer struct {
	rec  *Recorder
	next atomic.Int64
	mu   sync.Mutex
	conn map[int64]int // span id -> connection id (set by the driver through goroutine-local lookup)
	cur  func() int    // which connection is the calling goroutine serving
}

type recSpan struct {
	tr     *recTracer
	id     int64
	parent int64
	name   string
	c      int
	fin    atomic.Int32
}

func (t *recTracer) SetPackageName(string) {}
func (t *recTracer) SetServiceName(string) {}
func (t *recTracer) SetEndpoint(string)    {}
func (t *recTracer) PackageName() string   { return "verif" }
func (t *recTracer) ServiceName() string   { return "verif" }
func (t *recTracer) Endpoint() string      { return "" }
func (t *recTracer) Start() error          { return nil }
func (t *recTracer) Stop() error           { return nil }

func (t *recTracer) StartSpan(name string) tracer.Context {
	c := -1
	if t.cur != nil {
		c = t.cur()
	}
	s := &recSpan{tr: t, id: t.next.Add(1), parent: 0, name: name, c: c}
	t.rec.Emit(Ev{"ev": "span", "op": "start", "c": c, "id": s.id, "parent": 0, "name": name})
	return common.NewSpanContextWith(s)
}

func (s *recSpan) SetTag(string, any) {}
func (s *recSpan) Finish() {
	n := s.fin.Add(1)
	s.tr.rec.Emit(Ev{"ev": "span", "op": "finish", "c": s.c, "id": s.id, "parent": s.parent, "name": s.name, "nth": int(n)})
}
func (s *recSpan) Context() context.Context { return context.Background() }
func (s *recSpan) StartSpan(name string) tracer.Context {
	c := &recSpan{tr: s.tr, id: s.tr.next.Add(1), parent: s.id, name: name, c: s.c}
	s.tr.rec.Emit(Ev{"ev": "span", "op": "start", "c": s.c, "id": c.id, "parent": s.id, "name": name})
	return common.NewSpanContextWith(c)
}
