package main

import (
	"bufio"
	"bytes"
	"crypto/tls"
	"encoding/json"
	"flag"
	"fmt"
	mrand "math/rand"
	"net"
	"os"
	"path/filepath"
	"runtime"
	"sort"
	"strings"
	"sync"
	"syscall"
	"time"

	exserver "github.com/cybergarage/go-redis/examples/go-redisd/server"
	"github.com/cybergarage/go-redis/redis"
)

// life: lifecycle scripts (C15, C19) on a REAL server on loopback.  A script is
// a path of Server.tla: lifecycle calls, releases of goroutines parked at the
// verif schedule points, client dials/closes.  The controller releases a
// goroutine only when it is actually parked at the named point; a step the
// code under test cannot follow is recorded as infeasible and the rest of the
// script is abandoned (never judged).  After every lifecycle return and at the
// end the harness appends observations (probe dial+PING, bind probe, client
// sockets, registry, framework goroutines); TraceServer.tla judges them.

const probeIP = "127.0.0.2" // probes dial from this address and are never gated

type parkKey struct {
	point string
	id    string // "ctl", "loop:<gid>", "conn:<remote addr>"
}

type lifeCtl struct {
	mu     sync.Mutex
	cond   *sync.Cond
	rec    *Recorder
	gated  map[string]bool
	parked map[parkKey]bool
	allow  map[parkKey]int
	open   bool             // gates disabled: everything passes
	loops  map[int64]string // gid -> "kind:gen"
	gens   map[string]int   // kind -> generations seen
	exited map[string]bool  // "kind:gen" loops that ran their deferred close
	closed map[string]bool  // remote addrs whose connection goroutine finished
	reg    map[string]bool  // remote addrs registered
}

func newLifeCtl(rec *Recorder) *lifeCtl {
	c := &lifeCtl{rec: rec, gated: map[string]bool{}, parked: map[parkKey]bool{}, allow: map[parkKey]int{}, loops: map[int64]string{},
		gens: map[string]int{}, exited: map[string]bool{}, closed: map[string]bool{}, reg: map[string]bool{}}
	c.cond = sync.NewCond(&c.mu)
	return c
}

func remoteOf(arg any) string {
	if c, ok := arg.(*redis.Conn); ok && c != nil && c.Conn != nil && c.RemoteAddr() != nil {
		return c.RemoteAddr().String()
	}
	if c, ok := arg.(net.Conn); ok && c != nil && c.RemoteAddr() != nil {
		return c.RemoteAddr().String()
	}
	return ""
}

// hook is installed as redis.VerifPoint.
func (c *lifeCtl) hook(point string, arg any) {
	gid := goid()
	id := "ctl"
	kind := "plain"
	if strings.HasPrefix(point, "tls") {
		kind = "tls"
	}
	c.mu.Lock()
	switch {
	case strings.HasSuffix(point, "serve.enter"):
		c.gens[kind]++
		c.loops[gid] = fmt.Sprintf("%s:%d", kind, c.gens[kind])
		id = "loop:" + c.loops[gid]
	case strings.HasSuffix(point, "serve.accept-error"):
		id = "loop:" + c.loops[gid]
		point = "accept-error"
	case strings.HasSuffix(point, "serve.exit"):
		id = "loop:" + c.loops[gid]
		c.exited[c.loops[gid]] = true
		point = "loop-exit"
	case strings.HasPrefix(point, "recv.") || strings.HasPrefix(point, "tls.handshake"):
		id = "conn:" + remoteOf(arg)
		if point == "recv.closed" {
			c.closed[remoteOf(arg)] = true
		}
		if point == "recv.registered" {
			c.reg[remoteOf(arg)] = true
		}
	}
	key := parkKey{point, id}
	gate := c.gated[point] && !c.open && !strings.HasPrefix(strings.TrimPrefix(id, "conn:"), probeIP)
	c.mu.Unlock()
	c.rec.Emit(Ev{"ev": "point", "point": point, "id": id, "gated": gate})
	if !gate {
		c.mu.Lock()
		c.cond.Broadcast()
		c.mu.Unlock()
		return
	}
	c.mu.Lock()
	c.parked[key] = true
	c.cond.Broadcast()
	for !c.open && c.allow[key] == 0 {
		c.cond.Wait()
	}
	if c.allow[key] > 0 {
		c.allow[key]--
	}
	delete(c.parked, key)
	c.cond.Broadcast()
	c.mu.Unlock()
}

func (c *lifeCtl) waitFor(pred func() bool, timeout time.Duration) bool {
	expired := false
	t := time.AfterFunc(timeout, func() {
		c.mu.Lock()
		expired = true
		c.cond.Broadcast()
		c.mu.Unlock()
	})
	defer t.Stop()
	c.mu.Lock()
	defer c.mu.Unlock()
	for !pred() {
		if expired {
			return false
		}
		c.cond.Wait()
	}
	return true
}

func (c *lifeCtl) release(key parkKey) {
	c.mu.Lock()
	c.allow[key]++
	c.cond.Broadcast()
	c.mu.Unlock()
}

func (c *lifeCtl) openAll() {
	c.mu.Lock()
	c.open = true
	c.cond.Broadcast()
	c.mu.Unlock()
}

type lifeClient struct {
	id     int
	hsDone chan struct{} // TLS clients: closed when the client-side handshake finished
	conn   net.Conn
	local  string
	kind   string
	dialOK bool
	closed bool
}

type LifeScript struct {
	Prog   []string          `json:"prog"`
	Script []json.RawMessage `json:"script"`
	Kinds  []string          `json:"kinds"`
	TLS    json.RawMessage   `json:"tls"` // C09 scenarios carry their own section
}

// freePort picks a port for a server listener OUTSIDE the kernel's ephemeral range (32768-60999), so that the
// source port of some client connection can never collide with it while the listener is closed (Restart), and
// binds the wildcard address exactly as the server will.
var portRng = mrand.New(mrand.NewSource(time.Now().UnixNano()))
var portMu sync.Mutex

// portLo/portN: the range ports are drawn from (outside the ephemeral range, so that no outgoing
// connection of this machine can hold one).  Parallel shards of one check get disjoint ranges.
var portLo, portN = 20000, 12000

// freePort hands out a port that nothing listens on AND that no other harness process has been given: every port in use
// is leased through an exclusive flock on <tmp>/vharness-ports/<port> (several checks may run at the same time; without
// the lease two of them can pick the same port between the test bind and the server's own bind).  A process keeps its 64
// most recent leases, so a port is not handed out again while a scenario that used it may still be winding down.
var portLeases []*os.File

func freePort() int {
	portMu.Lock()
	defer portMu.Unlock()
	dir := filepath.Join(os.TempDir(), "vharness-ports")
	os.MkdirAll(dir, 0o777)
	for i := 0; i < 4000; i++ {
		p := portLo + portRng.Intn(portN)
		f, err := os.OpenFile(filepath.Join(dir, fmt.Sprint(p)), os.O_CREATE|os.O_RDWR, 0o666)
		if err != nil {
			continue
		}
		if syscall.Flock(int(f.Fd()), syscall.LOCK_EX|syscall.LOCK_NB) != nil {
			f.Close()
			continue
		}
		l, err := net.Listen("tcp", fmt.Sprintf(":%d", p))
		if err != nil {
			f.Close()
			continue
		}
		l.Close()
		portLeases = append(portLeases, f)
		if len(portLeases) > 64 {
			portLeases[0].Close()
			portLeases = portLeases[1:]
		}
		return p
	}
	must(fmt.Errorf("no free port"))
	return 0
}

func pingOn(conn net.Conn, timeout time.Duration) bool {
	conn.SetDeadline(time.Now().Add(timeout))
	defer conn.SetDeadline(time.Time{})
	if _, err := conn.Write([]byte("*1\r\n$4\r\nPING\r\n")); err != nil {
		return false
	}
	buf := make([]byte, 7)
	n := 0
	for n < 7 {
		k, err := conn.Read(buf[n:])
		if err != nil {
			return false
		}
		n += k
	}
	return string(buf) == "+PONG\r\n"
}

func probe(port int) (dialed bool, served bool) {
	d := net.Dialer{LocalAddr: &net.TCPAddr{IP: net.ParseIP(probeIP)}, Timeout: 500 * time.Millisecond}
	conn, err := d.Dial("tcp", fmt.Sprintf("127.0.0.1:%d", port))
	if err != nil {
		return false, false
	}
	noTimeWait(conn)
	defer conn.Close()
	return true, pingOn(conn, 700*time.Millisecond)
}

func bindable(port int) bool {
	l, err := net.Listen("tcp", fmt.Sprintf(":%d", port))
	if err != nil {
		return false
	}
	l.Close()
	return true
}

// frameworkGoroutines counts goroutines with a go-redis/redis frame other than harness callers.
func frameworkGoroutines() (int, []string) {
	buf := make([]byte, 1<<20)
	n := runtime.Stack(buf, true)
	cnt := 0
	var which []string
	for _, g := range strings.Split(string(buf[:n]), "\n\n") {
		if strings.Contains(g, "go-redis/redis.(*Server).serve") || strings.Contains(g, "go-redis/redis.(*Server).tlsServe") ||
			strings.Contains(g, "go-redis/redis.(*Server).receive") {
			cnt++
			lines := strings.Split(g, "\n")
			if len(lines) > 1 {
				if os.Getenv("VERIF_FULLSTACK") != "" {
					which = append(which, g)
				} else {
					which = append(which, strings.TrimSpace(lines[1]))
				}
			}
		}
	}
	return cnt, which
}

type lifeRun struct {
	rec     *Recorder
	ctl     *lifeCtl
	server  *redis.Server
	ports   map[string]int
	clients map[int]*lifeClient
	callRes chan error
	inCall  string
	phase   string
	timeout time.Duration
	nkinds  int

	wasInfeasible bool
}

var thePKI *pki

func lifePKI() *pki {
	if thePKI == nil {
		thePKI = newPKI()
	}
	return thePKI
}

// noTimeWait: a probe binds its source address explicitly, and a socket bound with bind() keeps its port to itself while
// it is in TIME_WAIT - the kernel then skips that port for every other outgoing connection of the machine.  Thousands of
// probes per minute exhausted the ephemeral range that way (dials failed with "cannot assign requested address", here and
// in anything else running on the machine).  Probes are therefore closed with a reset (no TIME_WAIT).
func noTimeWait(c net.Conn) {
	if tc, ok := c.(*net.TCPConn); ok {
		tc.SetLinger(0)
	}
}

func tlsProbe(port int) (dialed bool, served bool) {
	d := net.Dialer{LocalAddr: &net.TCPAddr{IP: net.ParseIP(probeIP)}, Timeout: 500 * time.Millisecond}
	raw, err := d.Dial("tcp", fmt.Sprintf("127.0.0.1:%d", port))
	if err != nil {
		return false, false
	}
	noTimeWait(raw)
	defer raw.Close()
	tc := tls.Client(raw, &tls.Config{RootCAs: lifePKI().rootPool, ServerName: "localhost", Certificates: lifePKI().clients["ok"], MinVersion: tls.VersionTLS12})
	raw.SetDeadline(time.Now().Add(1500 * time.Millisecond))
	if tc.Handshake() != nil {
		return true, false
	}
	raw.SetDeadline(time.Time{})
	return true, pingOn(tc, 700*time.Millisecond)
}

func (lr *lifeRun) clientState(c *lifeClient) string {
	if !c.dialOK {
		return "refused"
	}
	if c.closed {
		return "closedbyclient"
	}
	c.conn.SetReadDeadline(time.Now().Add(30 * time.Millisecond))
	defer c.conn.SetReadDeadline(time.Time{})
	b := make([]byte, 1)
	_, err := c.conn.Read(b)
	if err == nil {
		return "data"
	}
	if ne, ok := err.(net.Error); ok && ne.Timeout() {
		return "open"
	}
	return "eof"
}

func (lr *lifeRun) registryIDs() []int {
	ids := []int{}
	for _, cn := range lr.server.Conns() {
		ra := cn.RemoteAddr().String()
		for _, c := range lr.clients {
			if c.dialOK && c.local == ra {
				ids = append(ids, c.id)
			}
		}
	}
	sort.Ints(ids)
	return ids
}

// observe appends the observations appropriate to the current phase.
func (lr *lifeRun) observe(where string, final bool) {
	kinds := make([]string, 0, len(lr.ports))
	for k := range lr.ports {
		kinds = append(kinds, k)
	}
	sort.Strings(kinds)
	if lr.phase == "running" {
		for _, k := range kinds {
			d, s := false, false
			if k == "tls" {
				d, s = tlsProbe(lr.ports[k])
			} else {
				d, s = probe(lr.ports[k])
			}
			lr.rec.Emit(Ev{"ev": "obs", "kind": "probe", "port": k, "dialed": d, "served": s, "where": where, "phase": lr.phase})
		}
		// which scripted clients are being served, and what the registry says
		served := []int{}
		parkedAny := false
		lr.ctl.mu.Lock()
		for key := range lr.ctl.parked {
			if strings.HasPrefix(key.id, "conn:") {
				parkedAny = true
			}
		}
		lr.ctl.mu.Unlock()
		ids := make([]int, 0, len(lr.clients))
		for id := range lr.clients {
			ids = append(ids, id)
		}
		sort.Ints(ids)
		// The two sides of "the registry contains exactly the connections being served" are sampled one after the other
		// while connection goroutines may be moving (a client just released from its gate registers within microseconds):
		// a sample that disagrees is taken again a few times, so that only a disagreement that persists is reported.
		var conns []int
		for attempt := 0; ; attempt++ {
			served = served[:0]
			for _, id := range ids {
				c := lr.clients[id]
				lr.ctl.mu.Lock()
				registered := lr.ctl.reg[c.local]
				lr.ctl.mu.Unlock()
				if c.dialOK && !c.closed && registered && pingOn(c.conn, 500*time.Millisecond) {
					served = append(served, id)
				}
			}
			conns = lr.registryIDs()
			if fmt.Sprint(conns) == fmt.Sprint(served) || attempt >= 3 || parkedAny {
				break
			}
			time.Sleep(30 * time.Millisecond)
		}
		lr.rec.Emit(Ev{"ev": "obs", "kind": "registry", "conns": conns, "served": served, "parked": parkedAny, "where": where, "phase": lr.phase})
	}
	if lr.phase == "stopped" {
		for _, k := range kinds {
			lr.rec.Emit(Ev{"ev": "obs", "kind": "bind", "port": k, "ok": bindable(lr.ports[k]), "where": where, "phase": lr.phase})
		}
	}
	if final {
		ids := make([]int, 0, len(lr.clients))
		for id := range lr.clients {
			ids = append(ids, id)
		}
		sort.Ints(ids)
		for _, id := range ids {
			lr.rec.Emit(Ev{"ev": "obs", "kind": "client", "x": id, "state": lr.clientState(lr.clients[id]), "phase": lr.phase})
		}
		n, which := frameworkGoroutines()
		if which == nil {
			which = []string{}
		}
		lr.rec.Emit(Ev{"ev": "obs", "kind": "final", "conns": len(lr.server.Conns()), "goroutines": n, "which": which, "phase": lr.phase})
	}
}

func (lr *lifeRun) ctlParkedAt(point string) bool {
	return lr.ctl.parked[parkKey{point, "ctl"}]
}

// waitCall waits until the lifecycle call in flight returned or parked at one of its gates.
func (lr *lifeRun) waitCall() (returned bool, ok bool) {
	done := false
	var err error
	ok = lr.ctl.waitFor(func() bool {
		select {
		case err = <-lr.callRes:
			done = true
			return true
		default:
		}
		return lr.ctlParkedAt("start.opened") || lr.ctlParkedAt("stop.conns-closed")
	}, lr.timeout)
	if done {
		errs := ""
		if err != nil {
			errs = err.Error()
		}
		call := lr.inCall
		lr.inCall = ""
		if call == "Stop" {
			lr.phase = "stopped"
		} else if errs == "" {
			lr.phase = "running"
		} else {
			lr.phase = "failed"
		}
		lr.rec.Emit(Ev{"ev": "ret", "call": call, "err": errs, "phase": lr.phase})
		lr.observe("after-"+call, false)
	}
	return done, ok
}

// lifeInfeasible counts the scripts of this process that could not be replayed (a dead driver shows as: all of them)
var lifeInfeasible, lifeRun_ int

func (lr *lifeRun) infeasible(step string) {
	if !lr.wasInfeasible {
		lr.wasInfeasible = true
		lifeInfeasible++
	}
	lr.rec.Emit(Ev{"ev": "infeasible", "step": step})
}

func (rn *runner) runLife(id int, s LifeScript, setHook func(*lifeCtl)) {
	rn.rec.Begin(id)
	ctl := newLifeCtl(rn.rec)
	for _, p := range []string{"start.opened", "stop.conns-closed", "accept-error", "recv.before-register", "tls.handshake.begin"} {
		ctl.gated[p] = true
	}
	setHook(ctl)
	es := exserver.NewServer()
	lr := &lifeRun{rec: rn.rec, ctl: ctl, server: es.Server, ports: map[string]int{}, clients: map[int]*lifeClient{}, callRes: make(chan error, 1),
		phase: "init", timeout: rn.timeout}
	kinds := s.Kinds
	if len(kinds) == 0 {
		kinds = []string{"plain"}
	}
	for _, k := range kinds {
		lr.ports[k] = freePort()
	}
	es.Server.SetPort(lr.ports["plain"])
	if p, ok := lr.ports["tls"]; ok {
		es.Server.SetTLSPort(p)
		es.Server.ServerCert, es.Server.ServerKey, es.Server.CACerts = lifePKI().serverPEM, lifePKI().keyPEM, lifePKI().rootPEM
	}
	lr.nkinds = len(kinds)
	rn.rec.Emit(Ev{"ev": "scenario", "prog": s.Prog, "kinds": kinds})
	abandoned := false
	for _, raw := range s.Script {
		var st []json.RawMessage
		must(json.Unmarshal(raw, &st))
		var op string
		json.Unmarshal(st[0], &op)
		str := func(i int) string { var x string; json.Unmarshal(st[i], &x); return x }
		num := func(i int) int { var x int; json.Unmarshal(st[i], &x); return x }
		switch op {
		case "call":
			call := str(1)
			lr.inCall = call
			if call == "Stop" || call == "Restart" {
				lr.phase = "stopping"
			} else {
				lr.phase = "starting"
			}
			rn.rec.Emit(Ev{"ev": "call", "call": call, "phase": lr.phase})
			go func() {
				var err error
				switch call {
				case "Start":
					err = lr.server.Start()
				case "Stop":
					err = lr.server.Stop()
				case "Restart":
					err = lr.server.Restart()
				}
				lr.callRes <- err
				ctl.mu.Lock()
				ctl.cond.Broadcast()
				ctl.mu.Unlock()
			}()
			if _, ok := lr.waitCall(); !ok {
				lr.infeasible("call " + call)
				abandoned = true
			}
		case "release":
			point := str(1)
			var key parkKey
			switch point {
			case "start.opened", "stop.conns-closed":
				key = parkKey{point, "ctl"}
			case "accept-error":
				key = parkKey{"accept-error", fmt.Sprintf("loop:%s:%d", str(2), (num(3)-1)/lr.nkinds+1)}
			case "before-register":
				c := lr.clients[num(2)]
				if c == nil || !c.dialOK {
					lr.infeasible("release before-register of a client that is not connected")
					abandoned = true
					break
				}
				key = parkKey{"recv.before-register", "conn:" + c.local}
				if c.kind == "tls" {
					// first let the parked handshake run (the client side is already handshaking), then the registration gate
					hk := parkKey{"tls.handshake.begin", "conn:" + c.local}
					if !ctl.waitFor(func() bool { return ctl.parked[hk] }, 400*time.Millisecond) {
						lr.infeasible("TLS client is not parked at its handshake")
						abandoned = true
						break
					}
					rn.rec.Emit(Ev{"ev": "release", "point": hk.point, "id": hk.id})
					ctl.release(hk)
					ctl.waitFor(func() bool { return !ctl.parked[hk] }, lr.timeout)
					ctl.waitFor(func() bool { return ctl.parked[key] || ctl.closed[c.local] }, 1500*time.Millisecond)
					if !ctl.parked[key] { // the server refused the connection before registration (closed it): nothing left to release
						select {
						case <-c.hsDone:
						case <-time.After(500 * time.Millisecond):
						}
						lr.observe("after-register", false)
						continue
					}
				}
			}
			if abandoned {
				break
			}
			if !ctl.waitFor(func() bool { return ctl.parked[key] }, 400*time.Millisecond) {
				lr.infeasible(fmt.Sprintf("release %v: nobody parked there", key))
				abandoned = true
				break
			}
			rn.rec.Emit(Ev{"ev": "release", "point": key.point, "id": key.id})
			ctl.release(key)
			ctl.waitFor(func() bool { return !ctl.parked[key] }, lr.timeout) // the goroutine has actually left the gate
			switch point {
			case "start.opened", "stop.conns-closed":
				if _, ok := lr.waitCall(); !ok {
					lr.infeasible("call did not return or park after " + point)
					abandoned = true
				}
			case "accept-error":
				lid := strings.TrimPrefix(key.id, "loop:")
				ctl.waitFor(func() bool { return ctl.exited[lid] }, lr.timeout)
				lr.observe("after-loop-exit", false)
			case "before-register":
				c := lr.clients[num(2)]
				ctl.waitFor(func() bool { return ctl.reg[c.local] || ctl.closed[c.local] }, 500*time.Millisecond)
				ctl.mu.Lock()
				isReg := ctl.reg[c.local] && !ctl.closed[c.local]
				ctl.mu.Unlock()
				if isReg {
					rn.rec.Emit(Ev{"ev": "registered", "x": c.id})
				}
				lr.observe("after-register", false)
			}
		case "parked":
			key := parkKey{"accept-error", fmt.Sprintf("loop:%s:%d", str(2), (num(3)-1)/lr.nkinds+1)}
			if !ctl.waitFor(func() bool { return ctl.parked[key] }, 600*time.Millisecond) {
				lr.infeasible(fmt.Sprintf("loop %v never reached accept-error", key))
				abandoned = true
			}
		case "dial":
			x, kind := num(1), str(2)
			conn, err := net.DialTimeout("tcp", fmt.Sprintf("127.0.0.1:%d", lr.ports[kind]), 500*time.Millisecond)
			c := &lifeClient{id: x, kind: kind, hsDone: make(chan struct{})}
			if err == nil {
				c.conn, c.dialOK, c.local = conn, true, conn.LocalAddr().String()
				if kind == "tls" {
					tc := tls.Client(conn, &tls.Config{RootCAs: lifePKI().rootPool, ServerName: "localhost", Certificates: lifePKI().clients["ok"], MinVersion: tls.VersionTLS12})
					c.conn = tc
					go func() { tc.Handshake(); close(c.hsDone) }() // the server side is parked before its handshake
				}
			}
			lr.clients[x] = c
			derr := ""
			if err != nil {
				derr = err.Error() // (diagnosis only: the specification does not read it)
			}
			rn.rec.Emit(Ev{"ev": "dial", "x": x, "port": kind, "ok": c.dialOK, "phase": lr.phase, "err": derr})
		case "accepted":
			c := lr.clients[num(1)]
			gate := "recv.before-register"
			if c != nil && c.kind == "tls" {
				gate = "tls.handshake.begin"
			}
			if c == nil || !c.dialOK || !ctl.waitFor(func() bool { return ctl.parked[parkKey{gate, "conn:" + c.local}] }, 600*time.Millisecond) {
				lr.infeasible("client was not accepted")
				abandoned = true
			}
		case "close":
			c := lr.clients[num(1)]
			if c != nil && c.dialOK && !c.closed {
				c.conn.Close()
				c.closed = true
				rn.rec.Emit(Ev{"ev": "clientclose", "x": c.id})
				ctl.waitFor(func() bool { return ctl.closed[c.local] }, 500*time.Millisecond)
			}
		}
		if abandoned {
			break
		}
	}
	// wind down: let everything go, wait for the server side to settle, observe
	ctl.openAll()
	// (a call that was abandoned half-way passes its now open gates: wait until it has really returned, or the Stop below
	// would run concurrently with the second half of a Restart and leave that one's accept loops behind)
	for i := 0; lr.inCall != "" && i < 200; i++ {
		if done, _ := lr.waitCall(); !done {
			time.Sleep(2 * time.Millisecond)
		}
	}
	settle := func() bool {
		n, _ := frameworkGoroutines()
		if lr.phase == "stopped" {
			return n == 0
		}
		return true
	}
	deadline := time.Now().Add(1500 * time.Millisecond)
	for !settle() && time.Now().Before(deadline) {
		time.Sleep(5 * time.Millisecond)
	}
	lr.observe("final", !abandoned)
	// leave nothing behind
	for _, c := range lr.clients {
		if c.dialOK && !c.closed {
			c.conn.Close()
		}
	}
	if lr.phase != "stopped" {
		lr.server.Stop()
	}
	time.Sleep(2 * time.Millisecond)
	if os.Getenv("VERIF_FULLSTACK") != "" {
		n, _ := frameworkGoroutines()
		fmt.Fprintf(os.Stderr, "after script: phase=%s goroutines=%d prog=%v\n", lr.phase, n, s.Prog)
	}
	rn.rec.End()
}

// genIndex maps the model's listener generation number to the n-th loop of that kind observed
// (model generations count all kinds; with one kind they coincide).
func genIndex(ctl *lifeCtl, kind string, modelGen int) int {
	return modelGen // (unused: see lifeRun.nkinds)
}

func cmdLife(args []string) {
	fs := flag.NewFlagSet("life", flag.ExitOnError)
	scen := fs.String("scenarios", "", "script file (JSON lines)")
	out := fs.String("out", "", "trace file")
	timeoutMs := fs.Int("timeout-ms", 3000, "watchdog per wait")
	shard := fs.Int("shard", 0, "this process runs the scripts whose (line-1) mod --of equals --shard")
	of := fs.Int("of", 1, "number of parallel shards")
	fs.Parse(args)
	if *of > 1 {
		portN = 12000 / *of
		portLo = 20000 + *shard*portN
	}
	rec, err := NewRecorder(*out)
	must(err)
	rn := &runner{rec: rec, timeout: time.Duration(*timeoutMs) * time.Millisecond, g2c: map[int64]int{}}
	var current *lifeCtl
	var hmu sync.Mutex
	redis.VerifPoint = func(point string, arg any) {
		hmu.Lock()
		c := current
		hmu.Unlock()
		if c != nil {
			c.hook(point, arg)
		}
	}
	f, err := os.Open(*scen)
	must(err)
	rd := bufio.NewReaderSize(f, 1<<22)
	idx := 0
	for {
		line, err := rd.ReadBytes('\n')
		if len(bytes.TrimSpace(line)) > 0 {
			idx++
			if (idx-1)%*of != *shard {
				if err != nil {
					break
				}
				continue
			}
			var s LifeScript
			must(json.Unmarshal(line, &s))
			rn.runLife(idx, s, func(c *lifeCtl) {
				hmu.Lock()
				current = c
				hmu.Unlock()
			})
			hmu.Lock()
			current = nil
			hmu.Unlock()
			lifeRun_++
			if lifeRun_ >= 25 && lifeInfeasible == lifeRun_ {
				// not one script could be replayed: the driver is dead on this tree (the check reports that as inconclusive);
				// going on would only wait out thousands of watchdogs
				fmt.Println("life: the first 25 scripts were all infeasible, giving up")
				break
			}
		}
		if err != nil {
			break
		}
	}
	must(rec.Close())
	fmt.Printf("life: %d scripts\n", idx)
}

func init() { commands["life"] = cmdLife }
