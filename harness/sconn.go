package main

import (
	"errors"
	"fmt"
	"io"
	"net"
	"runtime"
	"sync"
	"time"
)

// sconn is a scripted in-memory net.Conn.  The driver delivers chunks; a Read
// never crosses a chunk boundary; a Read on an empty buffer records "block"
// and waits for the driver.  CloseWrite (half close: reads report EOF, writes
// still succeed) and PeerClose (reads and writes fail) are separate.  Every
// method records its event under the recorder's lock.
type sconn struct {
	mu        sync.Mutex
	cond      *sync.Cond
	id        int
	rec       *Recorder
	chunks    [][]byte
	eof       bool // client half-closed
	reset     bool // client fully closed
	closed    bool // server called Close
	blocked   bool // server is parked in Read
	written   int
	wfailAt   int // fail writes once this many bytes were written (-1: never)
	wbuf      []byte
	nblocks   int
	returned  bool
	closeFail bool // Close closes and then reports an error
	slow      bool // Write takes its time before it looks at the bytes (a slow socket): the caller's buffer must stay untouched meanwhile
}

type sAddr string

func (a sAddr) Network() string { return "scripted" }
func (a sAddr) String() string  { return string(a) }

func newSconn(id int, rec *Recorder) *sconn {
	c := &sconn{id: id, rec: rec, wfailAt: -1}
	c.cond = sync.NewCond(&c.mu)
	return c
}

func (c *sconn) Read(p []byte) (int, error) {
	c.mu.Lock()
	defer c.mu.Unlock()
	for {
		if c.closed {
			return 0, net.ErrClosed
		}
		if len(c.chunks) > 0 {
			ch := c.chunks[0]
			n := copy(p, ch)
			if n == len(ch) {
				c.chunks = c.chunks[1:]
			} else {
				c.chunks[0] = ch[n:]
			}
			return n, nil
		}
		if c.reset {
			return 0, errors.New("read: connection reset by peer")
		}
		if c.eof {
			return 0, io.EOF
		}
		if !c.blocked {
			c.blocked = true
			c.nblocks++
			c.rec.Emit(Ev{"ev": "block", "c": c.id, "written": c.written})
			c.cond.Broadcast()
		}
		c.cond.Wait()
	}
}

func (c *sconn) Write(p []byte) (int, error) {
	if c.slow {
		for i := 0; i < 4; i++ {
			runtime.Gosched()
		}
		time.Sleep(150 * time.Microsecond)
	}
	c.mu.Lock()
	defer c.mu.Unlock()
	if c.closed {
		return 0, net.ErrClosed
	}
	if c.reset || (c.wfailAt >= 0 && c.written+len(p) > c.wfailAt) {
		c.rec.Emit(Ev{"ev": "write", "c": c.id, "b": B(p), "failed": true})
		return 0, errors.New("write: broken pipe")
	}
	c.written += len(p)
	c.wbuf = append(c.wbuf, p...)
	c.rec.Emit(Ev{"ev": "write", "c": c.id, "b": B(p), "failed": false})
	return len(p), nil
}

func (c *sconn) Close() error {
	c.mu.Lock()
	defer c.mu.Unlock()
	if c.closed {
		return nil
	}
	c.closed = true
	c.rec.Emit(Ev{"ev": "close", "c": c.id})
	c.cond.Broadcast()
	if c.closeFail {
		return errors.New("tls: failed to send closeNotify alert (but connection was closed anyway)")
	}
	return nil
}

func (c *sconn) LocalAddr() net.Addr                { return sAddr("server") }
func (c *sconn) RemoteAddr() net.Addr               { return sAddr(fmt.Sprintf("client-%d", c.id)) }
func (c *sconn) SetDeadline(t time.Time) error      { return nil }
func (c *sconn) SetReadDeadline(t time.Time) error  { return nil }
func (c *sconn) SetWriteDeadline(t time.Time) error { return nil }

// ---- driver side

// Deliver hands one chunk to the server (the server must be blocked or not yet reading).
func (c *sconn) Deliver(b []byte, meta Ev) {
	c.mu.Lock()
	defer c.mu.Unlock()
	ev := Ev{"ev": "send", "c": c.id, "n": len(b)}
	for k, v := range meta {
		ev[k] = v
	}
	c.rec.Emit(ev)
	c.chunks = append(c.chunks, append([]byte{}, b...))
	c.blocked = false
	c.cond.Broadcast()
}

func (c *sconn) HalfClose() {
	c.mu.Lock()
	defer c.mu.Unlock()
	c.rec.Emit(Ev{"ev": "halfclose", "c": c.id})
	c.eof = true
	c.blocked = false
	c.cond.Broadcast()
}

func (c *sconn) PeerClose() {
	c.mu.Lock()
	defer c.mu.Unlock()
	c.rec.Emit(Ev{"ev": "fullclose", "c": c.id})
	c.reset = true
	c.blocked = false
	c.cond.Broadcast()
}

func (c *sconn) markReturned() {
	c.mu.Lock()
	c.returned = true
	c.cond.Broadcast()
	c.mu.Unlock()
}

// WaitQuiet waits until the server is parked in Read or has returned.
// It reports false if neither happened within the timeout (a stall).
func (c *sconn) WaitQuiet(timeout time.Duration) bool {
	expired := false
	t := time.AfterFunc(timeout, func() {
		c.mu.Lock()
		expired = true
		c.cond.Broadcast()
		c.mu.Unlock()
	})
	defer t.Stop()
	c.mu.Lock()
	defer c.mu.Unlock()
	for !(c.returned || (c.blocked && len(c.chunks) == 0)) {
		if expired {
			return false
		}
		c.cond.Wait()
	}
	return true
}

func (c *sconn) Written() []byte {
	c.mu.Lock()
	defer c.mu.Unlock()
	return append([]byte{}, c.wbuf...)
}
