package main

import (
	"encoding/hex"
	"math"
	"strings"
)

// Token table: symbol <-> concrete bytes.  Scenarios and the specification
// speak in symbols; the driver sends the bytes and maps every string it
// observes inside a handler call back to its symbol ("?<hex>" if unknown, which
// can never match the specification).
var allBytes = func() string {
	b := make([]byte, 256)
	for i := range b {
		b[i] = byte(i)
	}
	return string(b)
}()

var symBytes = map[string]string{
	// keys / members / fields
	"k1": "k1", "k2": "k2", "k3": "k3", "kw": "witness-key",
	"f1": "f1", "f2": "f2", "m1": "m1", "m2": "m2", "m3": "m3",
	"k:err": "k:err", "k:nil": "k:nil", "k:both": "k:both", "k:crlfstr": "k:crlfstr", "k:crlferr": "k:crlferr",
	"k:intbad": "k:intbad", "k:emptyerr": "k:emptyerr", "k:arr": "k:arr", "k:nested": "k:nested", "k:null": "k:null",
	"k:int": "k:int", "k:status": "k:status", "k:binary": "k:binary", "k:arrnil": "k:arrnil", "k:lfstr": "k:lfstr", "k:crstr": "k:crstr",
	"k:ud=a": "k:ud=a", "k:ud=b": "k:ud=b",
	// values
	"v1": "v1", "v2": "v2", "v3": "value-three", "s:empty": "", "s:bin": allBytes, "s:crlf": "a\r\nb",
	"s:forge": "x\r\n+OK\r\n", "s:forge2": "x\r\n:1\r\n$-1\r\n", "s:nul": "a\x00b", "s:sp": "hello world",
	"s:star": "*", "s:pat": "k*", "s:num": "123", "s:lf": "a\nb", "s:cr": "a\rb",
	// tags for ECHO / PING
	"t1": "tag-one", "t2": "tag-two", "t3": "tag-3", "t4": "tag-4",
	// passwords (C08); the configured one is pw:exact
	"pw:exact": "s3cr3t-Pass", "pw:prefix1": "s", "pw:prefixn": "s3cr3t-Pas", "pw:suffix": "s3cr3t-Passx", "pw:case": "S3CR3T-pASS",
	"pw:nul": "s3cr3t-Pass\x00", "pw:crlf": "s3cr3t-Pass\r\n", "pw:other": "hunter2", "pw:space": "s3cr3t-Pass ",
	"u:bob": "bob", "u:default": "default",
	// words
	"w:junk": "JUNKWORD", "w:abc": "abc", "w:1.5": "1.5", "w:huge": "99999999999999999999", "w:paren": "(", "w:1x": "1x", "w:minus": "-", "w:plus": "+", "w:sp5": " 5", "w:0x": "0x10",
	"c:appendonly": "appendonly", "c:save": "save",
}

// big values: at and beyond 64 KiB (where a parser or serializer may switch to a kept or pooled buffer); two of the same
// length with different contents, so that bytes left over from one can be told from the other
func patterned(n int, seed byte) string {
	b := make([]byte, n)
	for i := range b {
		b[i] = 'a' + byte((i*7+int(seed)*13+i/251)%26)
	}
	return string(b)
}

func init() {
	symBytes["s:big64a"] = patterned(65536, 1)
	symBytes["s:big64b"] = patterned(65536, 2)
	symBytes["s:big70"] = patterned(70001, 3)
	symBytes["s:big200"] = patterned(200000, 4)
	symBytes["s:big63"] = patterned(65535, 5)
	// long credentials: the same first 512 (and 1024) bytes, different ends
	symBytes["pw:long"] = patterned(1500, 6)
	symBytes["pw:long512"] = patterned(1500, 6)[:512] + patterned(988, 7)
	symBytes["pw:long1024"] = patterned(1500, 6)[:1024] + patterned(476, 8)
	symBytes["pw:longcut"] = patterned(1500, 6)[:512]
	for s, b := range symBytes {
		if _, ok := bytesSym[b]; !ok {
			bytesSym[b] = s
		}
	}
}

var bytesSym = func() map[string]string {
	m := map[string]string{}
	for s, b := range symBytes {
		if old, ok := m[b]; ok && old < s {
			continue
		}
		m[b] = s
	}
	return m
}()

func symOf(s string) string {
	if sym, ok := bytesSym[s]; ok {
		return sym
	}
	return "?" + hex.EncodeToString([]byte(s))
}

var bigInts = map[string]int{"max64": math.MaxInt64, "min64": math.MinInt64, "2^31": 1 << 31, "-2^31-1": -(1 << 31) - 1, "max64-1": math.MaxInt64 - 1,
	"2^32": 1 << 32, "2^32+2": 1<<32 + 2, "2^40+1": 1<<40 + 1}

// dbRec gives a database id as the specification sees it: ids that do not fit TLC's integers are all -1 (Conn.tla: "unknown big
// id"), so that a big id cut down to its low bits (a small number) is told from the id itself
func dbRec(id int) int {
	if id > -(1<<31) && id < (1<<31)-1 {
		return id
	}
	return -1
}

func intRec(n int) Ev {
	if n > -(1<<31) && n < (1<<31)-1 {
		return Ev{"n": n}
	}
	for s, v := range bigInts {
		if v == n {
			return Ev{"big": s}
		}
	}
	return Ev{"big": "?"}
}

var floatSyms = map[string]float64{"0": 0, "1": 1, "2": 2, "3": 3, "1.5": 1.5, "-2": -2, "1e300": 1e300, "+inf": math.Inf(1), "-inf": math.Inf(-1),
	"0.9": 0.9, "1.9": 1.9, "5": 5, "10": 10, "-1": -1}

func floatRec(f float64) Ev {
	for s, v := range floatSyms {
		if math.Float64bits(v) == math.Float64bits(f) {
			return Ev{"f": s}
		}
	}
	return Ev{"f": "?"}
}

func strRec(s string) Ev { return Ev{"s": symOf(s)} }

func strList(ss []string) []Ev {
	out := make([]Ev, len(ss))
	for i, s := range ss {
		out[i] = strRec(s)
	}
	return out
}

// Tok is one request argument of a scenario (the shape Commands.tla reads).
type Tok struct {
	K   string `json:"k"`   // key str junk int float bound word null raw
	S   string `json:"s"`   // symbol (key/str/junk); decimal text for int (filled in here)
	N   int    `json:"n"`   // int value when Big == ""
	Big string `json:"big"` // symbolic 64-bit boundary integer
	F   string `json:"f"`   // float symbol (float, bound)
	Ex  bool   `json:"ex"`  // bound: exclusive "(" prefix
	W   string `json:"w"`   // option word, upper case
	Cs  string `json:"cs"`  // word case variant: "" | "u" upper, "l" lower, "m" mixed
	Raw []int  `json:"raw"` // k=raw: bytes sent verbatim as the bulk payload
}

var floatText = map[string]string{"0": "0", "1": "1", "2": "2", "3": "3", "1.5": "1.5", "-2": "-2", "1e300": "1e300", "+inf": "+inf", "-inf": "-inf",
	"0.9": "0.9", "1.9": "1.9", "5": "5", "10": "10", "-1": "-1"}

func wordCase(w, cs string) string {
	switch cs {
	case "l":
		return strings.ToLower(w)
	case "m":
		out := []byte(strings.ToLower(w))
		for i := 0; i < len(out); i += 2 {
			if out[i] >= 'a' && out[i] <= 'z' {
				out[i] -= 32
			}
		}
		return string(out)
	}
	return w
}

// normalize fills derived fields (decimal text of ints).
func (t *Tok) normalize() {
	if t.K == "int" {
		if t.Big != "" {
			t.S = string(fmtInt(bigInts[t.Big]))
		} else {
			t.S = string(fmtInt(t.N))
		}
	}
}

// tokBytes gives the bulk payload for a token (nil, false for a null bulk).
func tokBytes(t Tok) ([]byte, bool) {
	switch t.K {
	case "null":
		return nil, false
	case "raw":
		return unB(t.Raw), true
	case "int":
		t.normalize()
		return []byte(t.S), true
	case "float":
		return []byte(floatText[t.F]), true
	case "bound":
		if t.Ex {
			return []byte("(" + floatText[t.F]), true
		}
		return []byte(floatText[t.F]), true
	case "word":
		return []byte(wordCase(t.W, t.Cs)), true
	default:
		b, ok := symBytes[t.S]
		if !ok {
			return []byte(t.S), true
		}
		return []byte(b), true
	}
}
