package main

import (
	"errors"
	"sort"
	"strconv"
	"sync"
	"time"

	"github.com/cybergarage/go-redis/redis"
	"github.com/cybergarage/go-redis/redis/glob"
	"github.com/cybergarage/go-redis/redis/proto"
)

// refStore is a Redis-faithful implementation of the primitive handler
// operations.  Expiry runs on a virtual clock: x is a key's remaining time to
// live in ms, and the clock only advances by the scripted pauses of a scenario
// (advance), exactly like RedisModel's; which commands keep, clear, set or
// move a key's expiry, and that an expired key is gone, is faithful.  It is the handler for C12/C16: the framework's
// derived commands run on top of it; its own behaviour is validated against
// RedisModel.tla in the same traces.  One mutex serialises primitives (a
// primitive is atomic, as in Redis; commands composed of several primitives
// are not, which is what C16 examines).
type refStore struct {
	mu  sync.Mutex
	dbs map[int]map[string]*entry
}

type zmem struct {
	m string
	s float64
}

type entry struct {
	ty   string // string hash list set zset
	str  string
	hash map[string]string
	list []string
	set  map[string]bool
	zset map[string]float64
	x    int // remaining time to live in ms on the virtual clock; 0 = persistent
}

func ms(d time.Duration) int { return int(d / time.Millisecond) }

// advance moves the virtual clock: keys whose time to live has run out are gone.
func (r *refStore) advance(by int) {
	r.mu.Lock()
	defer r.mu.Unlock()
	for _, d := range r.dbs {
		for k, e := range d {
			if e.x == 0 {
				continue
			}
			if e.x <= by {
				delete(d, k)
			} else {
				e.x -= by
			}
		}
	}
}

func newRefStore() *refStore { return &refStore{dbs: map[int]map[string]*entry{}} }

func (r *refStore) db(conn *redis.Conn) map[string]*entry {
	id := conn.Database()
	d, ok := r.dbs[id]
	if !ok {
		d = map[string]*entry{}
		r.dbs[id] = d
	}
	return d
}

var errWrongType = errors.New("WRONGTYPE Operation against a key holding the wrong kind of value")

func (r *refStore) get(conn *redis.Conn, key string, ty string, create bool) (*entry, error) {
	d := r.db(conn)
	e, ok := d[key]
	if ok {
		if e.ty != ty {
			return nil, errWrongType
		}
		return e, nil
	}
	if !create {
		return nil, nil
	}
	e = &entry{ty: ty, hash: map[string]string{}, set: map[string]bool{}, zset: map[string]float64{}}
	d[key] = e
	return e, nil
}

func (r *refStore) gc(conn *redis.Conn, key string) {
	d := r.db(conn)
	e, ok := d[key]
	if !ok {
		return
	}
	switch e.ty {
	case "hash":
		if len(e.hash) == 0 {
			delete(d, key)
		}
	case "list":
		if len(e.list) == 0 {
			delete(d, key)
		}
	case "set":
		if len(e.set) == 0 {
			delete(d, key)
		}
	case "zset":
		if len(e.zset) == 0 {
			delete(d, key)
		}
	}
}

func ints(n int) *redis.Message { return redis.NewIntegerMessage(n) }
func bulks(ss []string) *redis.Message {
	m := redis.NewArrayMessage()
	for _, s := range ss {
		m.Append(redis.NewBulkMessage(s))
	}
	return m
}

func (r *refStore) Del(conn *redis.Conn, keys []string) (*redis.Message, error) {
	r.mu.Lock()
	defer r.mu.Unlock()
	d := r.db(conn)
	n := 0
	for _, k := range keys {
		if _, ok := d[k]; ok {
			delete(d, k)
			n++
		}
	}
	return ints(n), nil
}

func (r *refStore) Exists(conn *redis.Conn, keys []string) (*redis.Message, error) {
	r.mu.Lock()
	defer r.mu.Unlock()
	d := r.db(conn)
	n := 0
	for _, k := range keys {
		if _, ok := d[k]; ok {
			n++
		}
	}
	return ints(n), nil
}

func (r *refStore) Expire(conn *redis.Conn, key string, opt redis.ExpireOption) (*redis.Message, error) {
	r.mu.Lock()
	defer r.mu.Unlock()
	d := r.db(conn)
	e, ok := d[key]
	if !ok {
		return ints(0), nil
	}
	now := time.Now()
	// the framework computed opt.Time = (its own now) + n seconds a moment ago: rounding the remaining time UP to a
	// whole second recovers n unless a whole second passed between the two clock readings
	rem := opt.Time.Sub(now)
	t := int((rem+time.Second-time.Nanosecond)/time.Second) * 1000
	if rem <= 0 {
		t = int(rem/time.Second) * 1000 // zero or negative: the key is deleted
	}
	cur := e.x // 0 = persistent = an infinite time to live for GT / LT
	if (opt.NX && cur != 0) || (opt.XX && cur == 0) || (opt.GT && (cur == 0 || t <= cur)) || (opt.LT && cur != 0 && t >= cur) {
		return ints(0), nil
	}
	if t <= 0 {
		delete(d, key)
		return ints(1), nil
	}
	e.x = t
	return ints(1), nil
}

func (r *refStore) Keys(conn *redis.Conn, pattern string) (*redis.Message, error) {
	r.mu.Lock()
	defer r.mu.Unlock()
	g, err := glob.Compile(pattern)
	if err != nil {
		return nil, err
	}
	var out []string
	for k := range r.db(conn) {
		if g.MatchString(k) {
			out = append(out, k)
		}
	}
	sort.Strings(out)
	return bulks(out), nil
}

func (r *refStore) Rename(conn *redis.Conn, key string, newkey string, opt redis.RenameOption) (*redis.Message, error) {
	r.mu.Lock()
	defer r.mu.Unlock()
	d := r.db(conn)
	e, ok := d[key]
	if !ok {
		return nil, errors.New("ERR no such key")
	}
	if opt.NX {
		if _, exists := d[newkey]; exists {
			return ints(0), nil
		}
	}
	if key != newkey {
		delete(d, key)
		d[newkey] = e
	}
	if opt.NX {
		return ints(1), nil
	}
	return redis.NewOKMessage(), nil
}

func (r *refStore) Type(conn *redis.Conn, key string) (*redis.Message, error) {
	r.mu.Lock()
	defer r.mu.Unlock()
	e, ok := r.db(conn)[key]
	if !ok {
		return redis.NewStringMessage("none"), nil
	}
	return redis.NewStringMessage(e.ty), nil
}

func (r *refStore) TTL(conn *redis.Conn, key string) (*redis.Message, error) {
	r.mu.Lock()
	defer r.mu.Unlock()
	e, ok := r.db(conn)[key]
	if !ok {
		return ints(-2), nil
	}
	if e.x == 0 {
		return ints(-1), nil
	}
	return ints((e.x + 500) / 1000), nil
}

func (r *refStore) Scan(conn *redis.Conn, cursor int, opt redis.ScanOption) (*redis.Message, error) {
	r.mu.Lock()
	defer r.mu.Unlock()
	var out []string
	for k := range r.db(conn) {
		if opt.MatchPattern == nil || opt.MatchPattern.MatchString(k) {
			out = append(out, k)
		}
	}
	sort.Strings(out)
	arr := proto.NewArray()
	arr.Append(redis.NewBulkMessage("0"))
	arr.Append(bulks(out))
	return redis.NewArrayMessageWithArray(arr), nil
}

func (r *refStore) Set(conn *redis.Conn, key string, val string, opt redis.SetOption) (*redis.Message, error) {
	r.mu.Lock()
	defer r.mu.Unlock()
	d := r.db(conn)
	old, exists := d[key]
	if opt.GET && exists && old.ty != "string" {
		return nil, errWrongType
	}
	if opt.NX && exists {
		return ints(0), nil
	}
	if opt.XX && !exists {
		return redis.NewNilMessage(), nil
	}
	ne := &entry{ty: "string", str: val}
	now := time.Now()
	switch {
	case opt.KEEPTTL && exists:
		ne.x = old.x
	case opt.EX > 0:
		ne.x = ms(opt.EX)
	case opt.PX > 0:
		ne.x = ms(opt.PX)
	case !opt.EXAT.IsZero():
		ne.x = ms(opt.EXAT.Sub(now))
	case !opt.PXAT.IsZero():
		ne.x = ms(opt.PXAT.Sub(now))
	}
	d[key] = ne
	switch {
	case opt.NX:
		return ints(1), nil
	case opt.GET:
		if exists {
			return redis.NewBulkMessage(old.str), nil
		}
		return redis.NewNilMessage(), nil
	}
	return redis.NewOKMessage(), nil
}

func (r *refStore) Get(conn *redis.Conn, key string) (*redis.Message, error) {
	r.mu.Lock()
	defer r.mu.Unlock()
	e, err := r.get(conn, key, "string", false)
	if err != nil {
		return nil, err
	}
	if e == nil {
		return redis.NewNilMessage(), nil
	}
	return redis.NewBulkMessage(e.str), nil
}

func (r *refStore) HDel(conn *redis.Conn, key string, fields []string) (*redis.Message, error) {
	r.mu.Lock()
	defer r.mu.Unlock()
	e, err := r.get(conn, key, "hash", false)
	if err != nil || e == nil {
		return ints(0), err
	}
	n := 0
	for _, f := range fields {
		if _, ok := e.hash[f]; ok {
			delete(e.hash, f)
			n++
		}
	}
	r.gc(conn, key)
	return ints(n), nil
}

func (r *refStore) HSet(conn *redis.Conn, key string, field string, val string, opt redis.HSetOption) (*redis.Message, error) {
	r.mu.Lock()
	defer r.mu.Unlock()
	e, err := r.get(conn, key, "hash", true)
	if err != nil {
		return nil, err
	}
	_, had := e.hash[field]
	if had && opt.NX {
		return ints(0), nil
	}
	e.hash[field] = val
	if had {
		return ints(0), nil
	}
	return ints(1), nil
}

func (r *refStore) HGet(conn *redis.Conn, key string, field string) (*redis.Message, error) {
	r.mu.Lock()
	defer r.mu.Unlock()
	e, err := r.get(conn, key, "hash", false)
	if err != nil {
		return nil, err
	}
	if e == nil {
		return redis.NewNilMessage(), nil
	}
	v, ok := e.hash[field]
	if !ok {
		return redis.NewNilMessage(), nil
	}
	return redis.NewBulkMessage(v), nil
}

func (r *refStore) HGetAll(conn *redis.Conn, key string) (*redis.Message, error) {
	r.mu.Lock()
	defer r.mu.Unlock()
	e, err := r.get(conn, key, "hash", false)
	if err != nil {
		return nil, err
	}
	var out []string
	if e != nil {
		var fs []string
		for f := range e.hash {
			fs = append(fs, f)
		}
		sort.Strings(fs)
		for _, f := range fs {
			out = append(out, f, e.hash[f])
		}
	}
	return bulks(out), nil
}

func (r *refStore) push(conn *redis.Conn, key string, elems []string, opt redis.PushOption, left bool) (*redis.Message, error) {
	r.mu.Lock()
	defer r.mu.Unlock()
	if opt.X {
		e, err := r.get(conn, key, "list", false)
		if err != nil || e == nil {
			return ints(0), err
		}
	}
	e, err := r.get(conn, key, "list", true)
	if err != nil {
		return nil, err
	}
	for _, x := range elems {
		if left {
			e.list = append([]string{x}, e.list...)
		} else {
			e.list = append(e.list, x)
		}
	}
	n := len(e.list)
	r.gc(conn, key)
	return ints(n), nil
}

func (r *refStore) LPush(conn *redis.Conn, key string, elements []string, opt redis.PushOption) (*redis.Message, error) {
	return r.push(conn, key, elements, opt, true)
}
func (r *refStore) RPush(conn *redis.Conn, key string, elements []string, opt redis.PushOption) (*redis.Message, error) {
	return r.push(conn, key, elements, opt, false)
}

func (r *refStore) pop(conn *redis.Conn, key string, count int, left bool) (*redis.Message, error) {
	r.mu.Lock()
	defer r.mu.Unlock()
	e, err := r.get(conn, key, "list", false)
	if err != nil {
		return nil, err
	}
	if e == nil || len(e.list) == 0 || count < 1 {
		return redis.NewNilMessage(), nil
	}
	requested := count
	if count > len(e.list) {
		count = len(e.list)
	}
	var out []string
	for i := 0; i < count; i++ {
		if left {
			out = append(out, e.list[0])
			e.list = e.list[1:]
		} else {
			out = append(out, e.list[len(e.list)-1])
			e.list = e.list[:len(e.list)-1]
		}
	}
	r.gc(conn, key)
	if requested == 1 { // the handler interface cannot tell "no count" from "count 1"
		return redis.NewBulkMessage(out[0]), nil
	}
	return bulks(out), nil
}

func (r *refStore) LPop(conn *redis.Conn, key string, count int) (*redis.Message, error) {
	return r.pop(conn, key, count, true)
}
func (r *refStore) RPop(conn *redis.Conn, key string, count int) (*redis.Message, error) {
	return r.pop(conn, key, count, false)
}

func rangeIdx(n, start, stop int) (int, int, bool) {
	if start < 0 {
		start = n + start
	}
	if stop < 0 {
		stop = n + stop
	}
	if start < 0 {
		start = 0
	}
	if stop >= n {
		stop = n - 1
	}
	if n == 0 || start > stop || start >= n {
		return 0, 0, false
	}
	return start, stop, true
}

func (r *refStore) LRange(conn *redis.Conn, key string, start int, stop int) (*redis.Message, error) {
	r.mu.Lock()
	defer r.mu.Unlock()
	e, err := r.get(conn, key, "list", false)
	if err != nil {
		return nil, err
	}
	if e == nil {
		return bulks(nil), nil
	}
	a, b, ok := rangeIdx(len(e.list), start, stop)
	if !ok {
		return bulks(nil), nil
	}
	return bulks(e.list[a : b+1]), nil
}

func (r *refStore) LIndex(conn *redis.Conn, key string, index int) (*redis.Message, error) {
	r.mu.Lock()
	defer r.mu.Unlock()
	e, err := r.get(conn, key, "list", false)
	if err != nil {
		return nil, err
	}
	if e == nil {
		return redis.NewNilMessage(), nil
	}
	if index < 0 {
		index = len(e.list) + index
	}
	if index < 0 || index >= len(e.list) {
		return redis.NewNilMessage(), nil
	}
	return redis.NewBulkMessage(e.list[index]), nil
}

func (r *refStore) LLen(conn *redis.Conn, key string) (*redis.Message, error) {
	r.mu.Lock()
	defer r.mu.Unlock()
	e, err := r.get(conn, key, "list", false)
	if err != nil {
		return nil, err
	}
	if e == nil {
		return ints(0), nil
	}
	return ints(len(e.list)), nil
}

func (r *refStore) SAdd(conn *redis.Conn, key string, members []string) (*redis.Message, error) {
	r.mu.Lock()
	defer r.mu.Unlock()
	e, err := r.get(conn, key, "set", true)
	if err != nil {
		return nil, err
	}
	n := 0
	for _, m := range members {
		if !e.set[m] {
			e.set[m] = true
			n++
		}
	}
	r.gc(conn, key)
	return ints(n), nil
}

func (r *refStore) SMembers(conn *redis.Conn, key string) (*redis.Message, error) {
	r.mu.Lock()
	defer r.mu.Unlock()
	e, err := r.get(conn, key, "set", false)
	if err != nil {
		return nil, err
	}
	var out []string
	if e != nil {
		for m := range e.set {
			out = append(out, m)
		}
		sort.Strings(out)
	}
	return bulks(out), nil
}

func (r *refStore) SRem(conn *redis.Conn, key string, members []string) (*redis.Message, error) {
	r.mu.Lock()
	defer r.mu.Unlock()
	e, err := r.get(conn, key, "set", false)
	if err != nil || e == nil {
		return ints(0), err
	}
	n := 0
	for _, m := range members {
		if e.set[m] {
			delete(e.set, m)
			n++
		}
	}
	r.gc(conn, key)
	return ints(n), nil
}

func (e *entry) sorted() []zmem {
	out := make([]zmem, 0, len(e.zset))
	for m, s := range e.zset {
		out = append(out, zmem{m, s})
	}
	sort.Slice(out, func(i, j int) bool {
		if out[i].s != out[j].s {
			return out[i].s < out[j].s
		}
		return out[i].m < out[j].m
	})
	return out
}

func zreply(ms []zmem, ws bool) *redis.Message {
	m := redis.NewArrayMessage()
	for _, x := range ms {
		m.Append(redis.NewBulkMessage(x.m))
		if ws {
			m.Append(redis.NewFloatMessage(x.s))
		}
	}
	return m
}

func (r *refStore) ZAdd(conn *redis.Conn, key string, members []*redis.ZSetMember, opt redis.ZAddOption) (*redis.Message, error) {
	r.mu.Lock()
	defer r.mu.Unlock()
	e, err := r.get(conn, key, "zset", true)
	if err != nil {
		return nil, err
	}
	added := 0
	for _, m := range members {
		old, had := e.zset[m.Member]
		if (had && opt.NX) || (!had && opt.XX) {
			continue
		}
		if had && ((opt.GT && m.Score <= old) || (opt.LT && m.Score >= old)) {
			continue
		}
		e.zset[m.Member] = m.Score
		if !had || (opt.CH && old != m.Score) {
			added++
		}
	}
	r.gc(conn, key)
	return ints(added), nil
}

func reverseZ(ms []zmem) []zmem {
	out := make([]zmem, len(ms))
	for i, x := range ms {
		out[len(ms)-1-i] = x
	}
	return out
}

func limitZ(ms []zmem, off, cnt int) []zmem {
	if off < 0 || off >= len(ms) {
		if off == 0 {
			return ms
		}
		return nil
	}
	ms = ms[off:]
	if cnt >= 0 && cnt < len(ms) {
		ms = ms[:cnt]
	}
	return ms
}

func (r *refStore) ZRange(conn *redis.Conn, key string, start int, stop int, opt redis.ZRangeOption) (*redis.Message, error) {
	r.mu.Lock()
	defer r.mu.Unlock()
	e, err := r.get(conn, key, "zset", false)
	if err != nil {
		return nil, err
	}
	if e == nil {
		return zreply(nil, false), nil
	}
	ms := e.sorted()
	if opt.REV {
		ms = reverseZ(ms)
	}
	a, b, ok := rangeIdx(len(ms), start, stop)
	if !ok {
		return zreply(nil, false), nil
	}
	return zreply(ms[a:b+1], opt.WITHSCORES), nil
}

func (r *refStore) ZRangeByScore(conn *redis.Conn, key string, min float64, max float64, opt redis.ZRangeOption) (*redis.Message, error) {
	r.mu.Lock()
	defer r.mu.Unlock()
	e, err := r.get(conn, key, "zset", false)
	if err != nil {
		return nil, err
	}
	if e == nil {
		return zreply(nil, false), nil
	}
	if opt.REV { // ZRANGE max min BYSCORE REV
		min, max = max, min
		opt.MINEXCLUSIVE, opt.MAXEXCLUSIVE = opt.MAXEXCLUSIVE, opt.MINEXCLUSIVE
	}
	var sel []zmem
	for _, x := range e.sorted() {
		if x.s < min || (opt.MINEXCLUSIVE && x.s == min) || x.s > max || (opt.MAXEXCLUSIVE && x.s == max) {
			continue
		}
		sel = append(sel, x)
	}
	if opt.REV {
		sel = reverseZ(sel)
	}
	if opt.Offset != 0 || opt.Count >= 0 {
		sel = limitZ(sel, opt.Offset, opt.Count)
	}
	return zreply(sel, opt.WITHSCORES), nil
}

func (r *refStore) ZRem(conn *redis.Conn, key string, members []string) (*redis.Message, error) {
	r.mu.Lock()
	defer r.mu.Unlock()
	e, err := r.get(conn, key, "zset", false)
	if err != nil || e == nil {
		return ints(0), err
	}
	n := 0
	for _, m := range members {
		if _, ok := e.zset[m]; ok {
			delete(e.zset, m)
			n++
		}
	}
	r.gc(conn, key)
	return ints(n), nil
}

func (r *refStore) ZScore(conn *redis.Conn, key string, member string) (*redis.Message, error) {
	r.mu.Lock()
	defer r.mu.Unlock()
	e, err := r.get(conn, key, "zset", false)
	if err != nil {
		return nil, err
	}
	if e == nil {
		return redis.NewNilMessage(), nil
	}
	s, ok := e.zset[member]
	if !ok {
		return redis.NewNilMessage(), nil
	}
	return redis.NewFloatMessage(s), nil
}

func (r *refStore) ZIncBy(conn *redis.Conn, key string, inc float64, member string) (*redis.Message, error) {
	r.mu.Lock()
	defer r.mu.Unlock()
	e, err := r.get(conn, key, "zset", true)
	if err != nil {
		return nil, err
	}
	e.zset[member] += inc
	return redis.NewFloatMessage(e.zset[member]), nil
}

// dump projects the whole store for the trace (small by construction).
func (r *refStore) dump() []Ev {
	r.mu.Lock()
	defer r.mu.Unlock()
	out := []Ev{}
	var ids []int
	for id := range r.dbs {
		ids = append(ids, id)
	}
	sort.Ints(ids)
	for _, id := range ids {
		d := r.dbs[id]
		var keys []string
		for k := range d {
			keys = append(keys, k)
		}
		sort.Strings(keys)
		ents := []Ev{}
		for _, k := range keys {
			e := d[k]
			ev := Ev{"k": BS(k), "ty": e.ty, "x": e.x}
			switch e.ty {
			case "string":
				ev["v"] = BS(e.str)
			case "hash":
				ps := [][][]int{}
				for f, v := range e.hash {
					ps = append(ps, [][]int{BS(f), BS(v)})
				}
				ev["h"] = ps
			case "list":
				l := [][]int{}
				for _, x := range e.list {
					l = append(l, BS(x))
				}
				ev["l"] = l
			case "set":
				s := [][]int{}
				for m := range e.set {
					s = append(s, BS(m))
				}
				ev["s"] = s
			case "zset":
				z := []Ev{}
				for m, s := range e.zset {
					sc, _ := strconv.Atoi(strconv.FormatFloat(s, 'f', -1, 64))
					z = append(z, Ev{"m": BS(m), "s": sc, "int": s == float64(sc)})
				}
				ev["z"] = z
			}
			ents = append(ents, ev)
		}
		out = append(out, Ev{"db": id, "keys": ents})
	}
	return out
}

func init() {
	installStore = func(rn *runner, server *redis.Server, kind string) any {
		switch kind {
		case "ref":
			rs := newRefStore()
			server.SetCommandHandler(rs)
			return rs
		}
		panic("unknown store handler " + kind)
	}
}
