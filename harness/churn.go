package main

import (
	"bufio"
	"crypto/tls"
	"flag"
	"fmt"
	"math/rand"
	"net"
	"os"
	"strings"
	"sync"
	"time"

	exserver "github.com/cybergarage/go-redis/examples/go-redisd/server"
	"github.com/cybergarage/go-redis/redis/auth"
)

// churn: C19 on real sockets.  One process = one server (run it as a fresh
// subprocess so that descriptors and goroutines belong to this run alone).
// After a warm-up the idle baseline (framework goroutines, open descriptors,
// registry entries) is recorded; then batches of connections end in every
// mode the property lists; after each batch the harness waits for the server
// side to settle (bounded) and records the counts again.

var churnModes = []string{"fin-boundary", "fin-mid", "rst", "quit", "quit-hold", "malformed", "writefail", "tls-nocert", "tls-wrongname", "tls-ok-fin", "tls-ok-rst", "tls-stall-close", "idle-fin", "quit-chatter", "malformed-pipeline"}

func countFDs() int {
	ents, err := os.ReadDir("/proc/self/fd")
	if err != nil {
		return -1
	}
	return len(ents) - 1 // the directory handle itself
}

type churnRun struct {
	plain, tlsp int
	p           *pki
	hmu         sync.Mutex
	held        []net.Conn // clients that keep their socket although the server must have closed its side (quit-hold)
}

func (cr *churnRun) nheld() int {
	cr.hmu.Lock()
	defer cr.hmu.Unlock()
	return len(cr.held)
}

func (cr *churnRun) releaseHeld() {
	cr.hmu.Lock()
	defer cr.hmu.Unlock()
	for _, c := range cr.held {
		c.Close()
	}
	cr.held = nil
}

// one connection with the given ending; reports whether the server closed its side where it has to
func (cr *churnRun) one(mode string, rng *rand.Rand) (closedByServer bool, mustClose bool) {
	readEOF := func(c net.Conn) bool {
		c.SetReadDeadline(time.Now().Add(1500 * time.Millisecond))
		buf := make([]byte, 4096)
		for {
			_, err := c.Read(buf)
			if err != nil {
				ne, ok := err.(net.Error)
				return !(ok && ne.Timeout())
			}
		}
	}
	switch mode {
	case "tls-nocert", "tls-wrongname", "tls-ok-fin", "tls-ok-rst", "tls-stall-close":
		raw, err := net.DialTimeout("tcp", fmt.Sprintf("127.0.0.1:%d", cr.tlsp), time.Second)
		if err != nil {
			return false, true
		}
		defer raw.Close()
		if mode == "tls-stall-close" {
			hc := &holdConn{Conn: raw, mode: "stall", hold: make(chan struct{})}
			go tls.Client(hc, &tls.Config{RootCAs: cr.p.rootPool, ServerName: "localhost"}).Handshake()
			time.Sleep(2 * time.Millisecond)
			close(hc.hold)
			return true, false
		}
		cred := map[string]string{"tls-nocert": "nocert", "tls-wrongname": "wrongname", "tls-ok-fin": "ok", "tls-ok-rst": "ok"}[mode]
		tc := tls.Client(raw, &tls.Config{RootCAs: cr.p.rootPool, ServerName: "localhost", Certificates: cr.p.clients[cred], MinVersion: tls.VersionTLS12})
		raw.SetDeadline(time.Now().Add(2 * time.Second))
		if err := tc.Handshake(); err != nil {
			// an alert is not a hang-up: the server has to close the TCP connection itself
			return readEOF(raw), mode != "tls-ok-fin" && mode != "tls-ok-rst"
		}
		if mode == "tls-ok-fin" || mode == "tls-ok-rst" {
			tc.Write(request("PING"))
			bufio.NewReader(tc).ReadString('\n')
			if mode == "tls-ok-rst" { // an established TLS connection that is reset (no close_notify, the server's own close_notify cannot be written)
				raw.(*net.TCPConn).SetLinger(0)
			}
			return true, false
		}
		tc.Write(request("PING"))
		readEOF(tc)               // the alert / close_notify
		return readEOF(raw), true // a rejected certificate: the server must close the TCP connection
	}
	c, err := net.DialTimeout("tcp", fmt.Sprintf("127.0.0.1:%d", cr.plain), time.Second)
	if err != nil {
		return false, true
	}
	if mode == "malformed-pipeline" {
		// complete requests and then a malformed frame in one segment, read only later: the replies to the complete requests
		// have to arrive (all of them, before the end of the stream), however the server gets rid of the connection
		defer c.Close()
		n := 200 + rng.Intn(1800)
		var b []byte
		for i := 0; i < n; i++ {
			b = append(b, request("PING")...)
		}
		c.Write(append(b, []byte("*2\r\n$abc\r\n")...))
		time.Sleep(time.Duration(20+rng.Intn(60)) * time.Millisecond)
		c.SetReadDeadline(time.Now().Add(2 * time.Second))
		rd := bufio.NewReader(c)
		pongs := 0
		for {
			line, err := rd.ReadString('\n')
			if line == "+PONG\r\n" {
				pongs++
			}
			if err != nil {
				ne, ok := err.(net.Error)
				return pongs == n && !(ok && ne.Timeout()), true
			}
		}
	}
	if mode == "quit-hold" || mode == "quit-chatter" {
		// the client does not close after QUIT: the server has to release the connection on its own
		defer func() { cr.hmu.Lock(); cr.held = append(cr.held, c); cr.hmu.Unlock() }()
	} else {
		defer c.Close()
	}
	rd := bufio.NewReader(c)
	pre := rng.Intn(3) // requests before the ending (position in a pipeline)
	for i := 0; i < pre; i++ {
		c.Write(request("SET", fmt.Sprintf("churn%d", i), "v"))
		c.SetReadDeadline(time.Now().Add(time.Second))
		rd.ReadString('\n')
	}
	switch mode {
	case "fin-boundary", "idle-fin":
		return true, false
	case "fin-mid":
		full := request("SET", "k-mid", "some-value")
		c.Write(full[:1+rng.Intn(len(full)-1)])
		c.(*net.TCPConn).CloseWrite()
		return readEOF(c), true
	case "rst":
		c.Write(request("GET", "k"))
		c.(*net.TCPConn).SetLinger(0)
		return true, false
	case "quit", "quit-hold":
		c.Write(request("QUIT"))
		return readEOF(c), true
	case "quit-chatter":
		// the client goes on sending after QUIT (a heartbeat, a pipeline that was already on its way) and keeps its socket:
		// the server still has to let go of the connection, while the chatter lasts (it ends when the harness closes the socket
		// after the batch has been observed)
		c.Write(request("QUIT"))
		go func() {
			for {
				time.Sleep(150 * time.Millisecond)
				if _, err := c.Write(request("PING")); err != nil {
					return
				}
			}
		}()
		return readEOF(c), true
	case "malformed":
		c.Write([]byte("*2\r\n$abc\r\n"))
		return readEOF(c), true
	case "writefail":
		// ask for large replies and never read them, then go away
		big := string(make([]byte, 64*1024))
		c.Write(request("SET", "bigk", big))
		for i := 0; i < 64; i++ {
			c.Write(request("GET", "bigk"))
		}
		c.(*net.TCPConn).SetLinger(0)
		return true, false
	}
	return true, false
}

func cmdChurn(args []string) {
	fs := flag.NewFlagSet("churn", flag.ExitOnError)
	out := fs.String("out", "", "trace file")
	cycles := fs.Int("cycles", 10, "batches")
	inflight := fs.Int("inflight", 8, "connections in flight per batch")
	seed := fs.Int64("seed", 1, "seed")
	only := fs.String("modes", "", "comma separated ending modes (default: all)")
	fs.Parse(args)
	if *only != "" {
		churnModes = strings.Split(*only, ",")
	}
	rec, err := NewRecorder(*out)
	must(err)
	rec.Begin(1)
	p := newPKI()
	es := exserver.NewServer()
	cr := &churnRun{plain: freePort(), tlsp: freePort(), p: p}
	es.SetPort(cr.plain)
	es.SetTLSPort(cr.tlsp)
	es.ServerCert, es.ServerKey, es.CACerts = p.serverPEM, p.keyPEM, p.rootPEM
	es.AddAuthenticator(auth.NewCertificateAuthenticatorWith(auth.WithCommonName(ruleName)))
	rec.Emit(Ev{"ev": "scenario", "prog": []string{"Start", "churn", "Stop"}, "kinds": []string{"plain", "tls"}})
	rec.Emit(Ev{"ev": "call", "call": "Start", "phase": "starting"})
	err = es.Start()
	errs := ""
	if err != nil {
		errs = err.Error()
	}
	rec.Emit(Ev{"ev": "ret", "call": "Start", "err": errs, "phase": "running"})
	rng := rand.New(rand.NewSource(*seed))
	// warm-up: one connection of every mode, so that lazily created runtime state exists before the baseline
	for _, m := range churnModes {
		cr.one(m, rng)
	}
	settle := func(want func() bool) {
		deadline := time.Now().Add(4 * time.Second)
		for !want() && time.Now().Before(deadline) {
			time.Sleep(5 * time.Millisecond)
		}
	}
	cr.releaseHeld()
	settle(func() bool { n, _ := frameworkGoroutines(); return n == 2 && len(es.Conns()) == 0 })
	time.Sleep(20 * time.Millisecond)
	bg, _ := frameworkGoroutines()
	bfd, bconns := countFDs(), len(es.Conns())
	rec.Emit(Ev{"ev": "obs", "kind": "baseline", "goroutines": bg, "fds": bfd, "conns": bconns})
	unsettled := 0
	for cyc := 1; cyc <= *cycles; cyc++ {
		var wg sync.WaitGroup
		var mu sync.Mutex
		notClosed := 0
		modes := map[string]int{}
		n := 1 + rng.Intn(*inflight)
		seeds := make([]int64, n)
		ms := make([]string, n)
		for i := range seeds {
			seeds[i] = rng.Int63()
			ms[i] = churnModes[rng.Intn(len(churnModes))]
			modes[ms[i]]++
		}
		for i := 0; i < n; i++ {
			wg.Add(1)
			go func(i int) {
				defer wg.Done()
				closed, must := cr.one(ms[i], rand.New(rand.NewSource(seeds[i])))
				if must && !closed {
					mu.Lock()
					notClosed++
					mu.Unlock()
				}
			}(i)
		}
		wg.Wait()
		settle(func() bool {
			g, _ := frameworkGoroutines()
			return g == bg && countFDs()-cr.nheld() == bfd && len(es.Conns()) == bconns // (held client sockets are the harness's own)
		})
		g, which := frameworkGoroutines()
		if which == nil {
			which = []string{}
		}
		if g != bg || countFDs()-cr.nheld() != bfd || len(es.Conns()) != bconns || notClosed > 0 {
			unsettled++
		}
		rec.Emit(Ev{"ev": "obs", "kind": "churn", "cycle": cyc, "n": n, "modes": modes, "goroutines": g, "fds": countFDs() - cr.nheld(), "conns": len(es.Conns()),
			"not_closed": notClosed, "which": which[:min(len(which), 6)]})
		cr.releaseHeld()
		if unsettled >= 3 {
			break // the run is already rejected; do not wait out the settle timeout thousands of times
		}
	}
	// the last ending mode: server Stop with connections open
	var open []net.Conn
	for i := 0; i < 4; i++ {
		if c, err := net.Dial("tcp", fmt.Sprintf("127.0.0.1:%d", cr.plain)); err == nil {
			c.Write(request("PING"))
			c.SetReadDeadline(time.Now().Add(time.Second))
			bufio.NewReader(c).ReadString('\n')
			open = append(open, c)
		}
	}
	// ... and with established TLS connections that their clients reset a moment ago: the server may not have noticed
	// yet, and closing such a connection fails (no close_notify can be sent); Stop has to complete all the same
	var doomed []net.Conn
	for i := 0; i < 8; i++ {
		raw, err := net.DialTimeout("tcp", fmt.Sprintf("127.0.0.1:%d", cr.tlsp), time.Second)
		if err != nil {
			continue
		}
		tc := tls.Client(raw, &tls.Config{RootCAs: p.rootPool, ServerName: "localhost", Certificates: p.clients["ok"], MinVersion: tls.VersionTLS12})
		raw.SetDeadline(time.Now().Add(2 * time.Second))
		if tc.Handshake() == nil {
			tc.Write(request("PING"))
			bufio.NewReader(tc).ReadString('\n')
		}
		doomed = append(doomed, raw)
	}
	// ... and with a client that asked for far more than the socket buffers hold and does not read: its connection
	// goroutine is blocked inside a reply write when Stop arrives
	if sr, err := net.DialTimeout("tcp", fmt.Sprintf("127.0.0.1:%d", cr.plain), time.Second); err == nil {
		sr.Write(request("SET", "stalled-big", string(make([]byte, 1<<20))))
		for i := 0; i < 64; i++ {
			sr.Write(request("GET", "stalled-big"))
		}
		open = append(open, sr)
		time.Sleep(50 * time.Millisecond)
	}
	// ... the same on the TLS port (an established TLS connection whose client does not read) ...
	if raw, err := net.DialTimeout("tcp", fmt.Sprintf("127.0.0.1:%d", cr.tlsp), time.Second); err == nil {
		tc := tls.Client(raw, &tls.Config{RootCAs: p.rootPool, ServerName: "localhost", Certificates: p.clients["ok"], MinVersion: tls.VersionTLS12})
		raw.SetDeadline(time.Now().Add(2 * time.Second))
		if tc.Handshake() == nil {
			tc.Write(request("SET", "stalled-big-tls", string(make([]byte, 1<<20))))
			for i := 0; i < 64; i++ {
				tc.Write(request("GET", "stalled-big-tls"))
			}
		}
		raw.SetDeadline(time.Time{})
		open = append(open, raw)
		time.Sleep(50 * time.Millisecond)
	}
	// ... and with a client on the TLS port that connected and has not said anything yet (the handshake has not started)
	if raw, err := net.DialTimeout("tcp", fmt.Sprintf("127.0.0.1:%d", cr.tlsp), time.Second); err == nil {
		open = append(open, raw)
		time.Sleep(20 * time.Millisecond)
	}
	// the resets come last, immediately before Stop (the server notices a reset within microseconds of being scheduled)
	for _, raw := range doomed {
		raw.(*net.TCPConn).SetLinger(0)
		raw.Close()
	}
	stopWatched := func() string {
		done := make(chan error, 1)
		go func() { done <- es.Stop() }()
		select {
		case err := <-done:
			if err != nil {
				return err.Error()
			}
			return ""
		case <-time.After(20 * time.Second):
			return "Stop did not return within 20 s"
		}
	}
	rec.Emit(Ev{"ev": "call", "call": "Stop", "phase": "stopping"})
	errs = stopWatched()
	rec.Emit(Ev{"ev": "ret", "call": "Stop", "err": errs, "phase": "stopped"})
	if errs == "Stop did not return within 20 s" {
		rec.End()
		must(rec.Close())
		fmt.Println("churn: Stop hung")
		return
	}
	settle(func() bool { g, _ := frameworkGoroutines(); return g == 0 })
	for i, c := range open {
		// whatever is still in flight is drained: the question is whether the stream ENDS (end of file or reset)
		c.SetReadDeadline(time.Now().Add(1500 * time.Millisecond))
		st := "open"
		buf := make([]byte, 1<<16)
		for {
			_, err := c.Read(buf)
			if err != nil {
				if ne, ok := err.(net.Error); !ok || !ne.Timeout() {
					st = "eof"
				}
				break
			}
		}
		rec.Emit(Ev{"ev": "obs", "kind": "client", "x": i, "state": st})
		c.Close()
	}
	g, which := frameworkGoroutines()
	if which == nil {
		which = []string{}
	}
	rec.Emit(Ev{"ev": "obs", "kind": "final", "conns": len(es.Conns()), "goroutines": g, "which": which})
	for _, k := range []int{cr.plain, cr.tlsp} {
		rec.Emit(Ev{"ev": "obs", "kind": "bind", "port": fmt.Sprint(k), "ok": bindable(k)})
	}
	// a second life of the same server: the plain port is disabled through CONFIG SET while it is running; Stop still has
	// to close the listener that Start opened
	rec.Emit(Ev{"ev": "call", "call": "Start", "phase": "starting"})
	errs = ""
	if err := es.Start(); err != nil {
		errs = err.Error()
	}
	rec.Emit(Ev{"ev": "ret", "call": "Start", "err": errs, "phase": "running"})
	if errs == "" {
		if c, err := net.DialTimeout("tcp", fmt.Sprintf("127.0.0.1:%d", cr.plain), time.Second); err == nil {
			c.Write(request("CONFIG", "SET", "port", "0"))
			c.SetReadDeadline(time.Now().Add(time.Second))
			bufio.NewReader(c).ReadString('\n')
			c.Close()
		}
		rec.Emit(Ev{"ev": "call", "call": "Stop", "phase": "stopping"})
		errs = stopWatched()
		rec.Emit(Ev{"ev": "ret", "call": "Stop", "err": errs, "phase": "stopped"})
		settle(func() bool { g, _ := frameworkGoroutines(); return g == 0 })
		g, which = frameworkGoroutines()
		if which == nil {
			which = []string{}
		}
		rec.Emit(Ev{"ev": "obs", "kind": "final", "conns": len(es.Conns()), "goroutines": g, "which": which})
		for _, k := range []int{cr.plain, cr.tlsp} {
			rec.Emit(Ev{"ev": "obs", "kind": "bind", "port": fmt.Sprint(k), "ok": bindable(k)})
		}
	}
	rec.End()
	must(rec.Close())
	fmt.Printf("churn: %d cycles\n", *cycles)
}

func init() { commands["churn"] = cmdChurn }
