package main

import (
	"flag"
	"fmt"
	"math/rand"

	"github.com/cybergarage/go-redis/redis/glob"
)

// c17: glob.Compile(p).MatchString(k) over complete pattern/key universes.

func allStrings(alpha []byte, n int) [][]byte {
	out := [][]byte{{}}
	prev := [][]byte{{}}
	for l := 1; l <= n; l++ {
		var cur [][]byte
		for _, p := range prev {
			for _, c := range alpha {
				s := append(append([]byte{}, p...), c)
				cur = append(cur, s)
			}
		}
		out = append(out, cur...)
		prev = cur
	}
	return out
}

func globEvent(p []byte, keys [][]byte) (errs string, panicked bool, hits [][]int) {
	hits = [][]int{}
	defer func() {
		if r := recover(); r != nil {
			panicked = true
			errs = fmt.Sprint(r)
		}
	}()
	g, err := glob.Compile(string(p))
	if err != nil {
		return err.Error(), false, hits
	}
	for _, k := range keys {
		if g.MatchString(string(k)) {
			hits = append(hits, B(k))
		}
	}
	return "", false, hits
}

func cmdC17(args []string) {
	fs := flag.NewFlagSet("c17", flag.ExitOnError)
	out := fs.String("out", "", "trace file")
	plen := fs.Int("plen", 3, "pattern length bound (complete)")
	klen := fs.Int("klen", 3, "key length bound (complete)")
	nrand := fs.Int("random", 0, "random longer patterns/keys")
	seed := fs.Int64("seed", 1, "seed")
	fs.Parse(args)
	rec, err := NewRecorder(*out)
	must(err)
	alpha := []byte("ab*?.+(|$\xff") // (0xff is not valid UTF-8: two of them side by side are still two characters)
	keys := allStrings(alpha, *klen)
	sc := 0
	for _, p := range allStrings(alpha, *plen) {
		sc++
		rec.Begin(sc)
		e, pan, hits := globEvent(p, keys)
		rec.Emit(Ev{"ev": "glob", "p": B(p), "err": e, "panicked": pan, "hits": hits, "universe": true, "alpha": B(alpha), "klen": *klen, "keys": [][]int{}})
	}
	rng := rand.New(rand.NewSource(*seed))
	long := []byte("ab*?.+()|^${}[]\\-x")
	for i := 0; i < *nrand; i++ {
		// the characters the property names (without the class/escape syntax it does not cover)
		ralpha := []byte("ab*?.+()|^${}\xff")
		_ = long
		p := make([]byte, 1+rng.Intn(12))
		for j := range p {
			p[j] = ralpha[rng.Intn(len(ralpha))]
		}
		var ks [][]byte
		for n := 0; n < 40; n++ {
			// keys derived from the pattern so that matches are frequent
			k := []byte{}
			for _, c := range p {
				switch {
				case c == '*':
					for m := rng.Intn(3); m > 0; m-- {
						k = append(k, ralpha[rng.Intn(len(ralpha))])
					}
				case c == '?':
					k = append(k, ralpha[rng.Intn(len(ralpha))])
				case rng.Intn(12) == 0:
					k = append(k, ralpha[rng.Intn(len(ralpha))])
				default:
					k = append(k, c)
				}
			}
			ks = append(ks, k)
		}
		sc++
		rec.Begin(sc)
		e, pan, hits := globEvent(p, ks)
		kj := [][]int{}
		for _, k := range ks {
			kj = append(kj, B(k))
		}
		rec.Emit(Ev{"ev": "glob", "p": B(p), "err": e, "panicked": pan, "hits": hits, "universe": false, "alpha": []int{}, "klen": 0, "keys": kj})
	}
	must(rec.Close())
	fmt.Printf("c17: %d patterns\n", sc)
}

func init() { commands["c17"] = cmdC17 }
