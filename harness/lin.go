package main

import (
	"bufio"
	"bytes"
	"encoding/json"
	"flag"
	"fmt"
	"os"
	"sync"
	"time"

	exserver "github.com/cybergarage/go-redis/examples/go-redisd/server"
	"github.com/cybergarage/go-redis/redis"
)

// lin: concurrent histories for C16.  Either a FORCED schedule (every
// primitive handler call of the clients' commands is parked at a gate and the
// controller releases one client at a time in the order a TLC-generated
// schedule says) or FREE-running clients (true concurrency).  The schedule is
// an adversary, not an expectation: a step that cannot be realised is recorded
// and skipped; the verdict is taken from the history that actually resulted.

type gateCtl struct {
	mu      sync.Mutex
	cond    *sync.Cond
	enabled bool
	parked  map[int]bool
	allow   map[int]int
	seq     map[int]int // number of times a client parked
}

func newGateCtl() *gateCtl {
	g := &gateCtl{parked: map[int]bool{}, allow: map[int]int{}, seq: map[int]int{}}
	g.cond = sync.NewCond(&g.mu)
	return g
}

func (g *gateCtl) enter(c int) {
	g.mu.Lock()
	defer g.mu.Unlock()
	if !g.enabled {
		return
	}
	g.parked[c] = true
	g.seq[c]++
	g.cond.Broadcast()
	for g.enabled && g.allow[c] == 0 {
		g.cond.Wait()
	}
	if g.allow[c] > 0 {
		g.allow[c]--
	}
	g.parked[c] = false
}

func (g *gateCtl) set(on bool) {
	g.mu.Lock()
	g.enabled = on
	g.cond.Broadcast()
	g.mu.Unlock()
}

func (g *gateCtl) isParked(c int) bool {
	g.mu.Lock()
	defer g.mu.Unlock()
	return g.parked[c]
}

// release lets the parked client c proceed and returns its park count at that moment.
func (g *gateCtl) release(c int) int {
	g.mu.Lock()
	defer g.mu.Unlock()
	g.allow[c]++
	g.cond.Broadcast()
	return g.seq[c]
}

func (g *gateCtl) parkedSince(c int, seq int) bool {
	g.mu.Lock()
	defer g.mu.Unlock()
	return g.parked[c] && g.seq[c] > seq
}

// gateHandler parks the primitives the derived commands are made of.
type gateHandler struct {
	redis.UserCommandHandler
	ctl *gateCtl
}

func (h *gateHandler) Get(conn *redis.Conn, key string) (*redis.Message, error) {
	h.ctl.enter(connID(conn))
	return h.UserCommandHandler.Get(conn, key)
}
func (h *gateHandler) Set(conn *redis.Conn, key string, val string, opt redis.SetOption) (*redis.Message, error) {
	h.ctl.enter(connID(conn))
	return h.UserCommandHandler.Set(conn, key, val, opt)
}
func (h *gateHandler) Del(conn *redis.Conn, keys []string) (*redis.Message, error) {
	h.ctl.enter(connID(conn))
	return h.UserCommandHandler.Del(conn, keys)
}

type LinOp struct {
	C   int `json:"c"`
	Req Req `json:"req"`
}

type LinScenario struct {
	Handler  string  `json:"handler"` // ref | example
	Gate     bool    `json:"gate"`
	NConns   int     `json:"nconns"`
	Setup    []Req   `json:"setup"`
	Ops      []LinOp `json:"ops"`      // forced mode: one command per client
	Schedule []int   `json:"schedule"` // forced mode: which parked client proceeds next
	Programs [][]Req `json:"programs"` // free mode: per client, commands issued one after another
}

// linSerialized: the server under test was seen to hold back a client while another one was parked inside a handler call
var linSerialized bool

func linParkWait(rn *runner) time.Duration {
	if linSerialized {
		return 30 * time.Millisecond
	}
	return rn.timeout
}

// quietOrParked waits until the client parked again (after park count since) or finished its request.
func (rn *runner) quietOrParked(cr *connRun, ctl *gateCtl, since int, timeout time.Duration) bool {
	deadline := time.Now().Add(timeout)
	for {
		if ctl.parkedSince(cr.sc.id, since) {
			return true
		}
		cr.sc.mu.Lock()
		q := cr.sc.returned || (cr.sc.blocked && len(cr.sc.chunks) == 0)
		cr.sc.mu.Unlock()
		if q {
			return true
		}
		if time.Now().After(deadline) {
			return false
		}
		time.Sleep(200 * time.Microsecond)
	}
}

func (rn *runner) runLin(id int, s LinScenario) bool {
	rn.rec.Begin(id)
	n := s.NConns
	if n <= 0 {
		n = 2
	}
	conns := make([]*connRun, n)
	for i := range conns {
		conns[i] = &connRun{sc: newSconn(i, rn.rec), done: make(chan struct{}), sentAt: time.Now()}
	}
	var server *redis.Server
	var inner redis.UserCommandHandler
	if s.Handler == "example" {
		es := exserver.NewServer()
		server = es.Server
		inner = es
	} else {
		server = redis.NewServer()
		inner = newRefStore()
	}
	ctl := newGateCtl()
	server.SetPort(0)
	server.SetCommandHandler(&gateHandler{UserCommandHandler: inner, ctl: ctl})
	must(server.Start())
	rn.rec.Emit(Ev{"ev": "scenario", "handler": s.Handler, "gate": s.Gate, "nconns": n, "modelconns": []int{}})
	ok := true
	for i := range conns {
		rn.rec.Emit(Ev{"ev": "open", "c": i})
		rn.serve(server, conns[i])
		if !conns[i].sc.WaitQuiet(rn.timeout) {
			return false
		}
	}
	issue := func(c int, r Req) {
		e := r.encode()
		rn.rec.Emit(Ev{"ev": "reqs", "c": c, "reqs": []Ev{r.annotate()}, "bytes": len(e), "ends": []int{len(e)}})
		conns[c].sc.Deliver(e, Ev{"upto": len(e), "complete": 1, "of": 1})
	}
	for _, r := range s.Setup {
		issue(0, r)
		if !conns[0].sc.WaitQuiet(rn.timeout) {
			return false
		}
	}
	if len(s.Programs) > 0 {
		var wg sync.WaitGroup
		for c, prog := range s.Programs {
			if c >= n {
				break
			}
			wg.Add(1)
			go func(c int, prog []Req) {
				defer wg.Done()
				for _, r := range prog {
					issue(c, r)
					if !conns[c].sc.WaitQuiet(rn.timeout) {
						ok = false
						return
					}
				}
			}(c, prog)
		}
		wg.Wait()
	} else {
		ctl.set(s.Gate)
		for _, op := range s.Ops {
			issue(op.C, op.Req)
		}
		// every client reaches its first primitive (parks) or finishes.  A server that executes commands one at a time
		// lets only one client get that far: once a wait expires while another client is parked, the following waits are
		// short (the schedule's steps for the blocked clients are then recorded as not realisable, which is no verdict)
		for _, op := range s.Ops {
			if !rn.quietOrParked(conns[op.C], ctl, 0, linParkWait(rn)) {
				for _, o2 := range s.Ops {
					if o2.C != op.C && ctl.isParked(o2.C) {
						linSerialized = true
					}
				}
			}
		}
		for _, c := range s.Schedule {
			if c < 0 || c >= n {
				continue
			}
			if !ctl.isParked(c) {
				// give a client that is about to park a short moment; otherwise this step is not realisable
				deadline := time.Now().Add(50 * time.Millisecond)
				for !ctl.isParked(c) && time.Now().Before(deadline) {
					conns[c].sc.mu.Lock()
					q := conns[c].sc.blocked
					conns[c].sc.mu.Unlock()
					if q {
						break
					}
					time.Sleep(100 * time.Microsecond)
				}
			}
			if !ctl.isParked(c) {
				rn.rec.Emit(Ev{"ev": "sched", "c": c, "realized": false})
				continue
			}
			rn.rec.Emit(Ev{"ev": "sched", "c": c, "realized": true})
			since := ctl.release(c)
			rn.quietOrParked(conns[c], ctl, since, rn.timeout)
		}
		ctl.set(false)
		for i := range conns {
			if !conns[i].sc.WaitQuiet(rn.timeout) {
				ok = false
			}
		}
	}
	for _, cr := range conns {
		cr.sc.HalfClose()
		select {
		case <-cr.done:
		case <-time.After(rn.timeout):
			ok = false
		}
	}
	server.Stop()
	if !ok {
		rn.rec.Emit(Ev{"ev": "stall", "c": 0, "running": false, "stack": ""})
	}
	rn.rec.End()
	return true
}

func cmdLin(args []string) {
	fs := flag.NewFlagSet("lin", flag.ExitOnError)
	scen := fs.String("scenarios", "", "scenario file (JSON lines)")
	out := fs.String("out", "", "trace file")
	timeoutMs := fs.Int("timeout-ms", 4000, "watchdog per wait")
	fs.Parse(args)
	rec, err := NewRecorder(*out)
	must(err)
	rn := &runner{rec: rec, timeout: time.Duration(*timeoutMs) * time.Millisecond, g2c: map[int64]int{}}
	f, err := os.Open(*scen)
	must(err)
	rd := bufio.NewReaderSize(f, 1<<22)
	idx := 0
	for {
		line, err := rd.ReadBytes('\n')
		if len(bytes.TrimSpace(line)) > 0 {
			idx++
			var s LinScenario
			must(json.Unmarshal(line, &s))
			rn.runLin(idx, s)
		}
		if err != nil {
			break
		}
	}
	must(rec.Close())
	fmt.Printf("lin: %d scenarios\n", idx)
}

func init() { commands["lin"] = cmdLin }
