package main

import (
	"bufio"
	"bytes"
	"encoding/json"
	"flag"
	"fmt"
	"io"
	"math/rand"
	"os"
)

// chunkReader delivers the stream in the given chunk sizes; a Read never
// crosses a chunk boundary; after the last chunk it reports io.EOF.
type chunkReader struct {
	data   []byte
	chunks []int
	ci     int // current chunk
	off    int // consumed within data
	left   int // left in current chunk
	reads  int
}

func newChunkReader(data []byte, chunks []int) *chunkReader {
	r := &chunkReader{data: data, chunks: chunks}
	if len(chunks) > 0 {
		r.left = chunks[0]
	}
	return r
}

func (r *chunkReader) Read(p []byte) (int, error) {
	r.reads++
	for r.left == 0 {
		r.ci++
		if r.ci >= len(r.chunks) {
			return 0, io.EOF
		}
		r.left = r.chunks[r.ci]
	}
	if r.off >= len(r.data) {
		return 0, io.EOF
	}
	n := len(p)
	if n > r.left {
		n = r.left
	}
	if n > len(r.data)-r.off {
		n = len(r.data) - r.off
	}
	copy(p, r.data[r.off:r.off+n])
	r.off += n
	r.left -= n
	return n, nil
}

func chunkedEvent(stream []byte, chunks []int) Ev {
	r := newChunkReader(stream, chunks)
	p := newParserOver(r)
	res := []Val{}
	ends := []int{}
	for i := 0; i < len(stream)+2; i++ {
		m, err, pan := nextSafe(p)
		if pan != "" {
			res = append(res, Val{T: "panic", M: pan})
			break
		}
		if err != nil {
			res = append(res, Val{T: "error", M: err.Error()})
			break
		}
		if m == nil {
			res = append(res, Val{T: "eof"})
			break
		}
		res = append(res, Project(m))
		ends = append(ends, r.off)
	}
	return Ev{"ev": "chunked", "stream": B(stream), "chunks": chunks, "res": res, "ends": ends, "left": len(stream) - r.off}
}

func randPartition(rng *rand.Rand, n int) []int {
	if n == 0 {
		return []int{}
	}
	var out []int
	left := n
	mode := rng.Intn(3)
	for left > 0 {
		var k int
		switch mode {
		case 0:
			k = 1 + rng.Intn(3)
		case 1:
			k = 1 + rng.Intn(left)
		default:
			k = 1 + rng.Intn(64)
		}
		if k > left {
			k = left
		}
		out = append(out, k)
		left -= k
	}
	return out
}

func cmdC02(args []string) {
	fs := flag.NewFlagSet("c02", flag.ExitOnError)
	scen := fs.String("scenarios", "", "TLC-exported scenarios: stream, chunks")
	out := fs.String("out", "", "trace file")
	seed := fs.Int64("seed", 1, "seed")
	perStream := fs.Int("random-per-stream", 0, "seeded random k-way partitions per distinct TLC stream")
	nlong := fs.Int("long", 0, "random long streams (up to 50 values, up to 64 KiB)")
	fs.Parse(args)
	rec, err := NewRecorder(*out)
	must(err)
	sc := 0
	emit := func(ev Ev) {
		sc++
		rec.Begin(sc)
		rec.Emit(ev)
	}
	rng := rand.New(rand.NewSource(*seed))
	seen := map[string]bool{}
	if *scen != "" {
		f, err := os.Open(*scen)
		must(err)
		rd := bufio.NewReaderSize(f, 1<<20)
		for {
			line, err := rd.ReadBytes('\n')
			if len(bytes.TrimSpace(line)) > 0 {
				var s struct {
					Stream []int `json:"stream"`
					Chunks []int `json:"chunks"`
				}
				must(json.Unmarshal(line, &s))
				st := unB(s.Stream)
				ev := chunkedEvent(st, s.Chunks)
				ev["src"] = "tlc"
				emit(ev)
				if !seen[string(st)] {
					seen[string(st)] = true
					for k := 0; k < *perStream; k++ {
						ev := chunkedEvent(st, randPartition(rng, len(st)))
						ev["src"] = "random-partition"
						emit(ev)
					}
				}
			}
			if err != nil {
				break
			}
		}
		f.Close()
	}
	for i := 0; i < *nlong; i++ {
		var st []byte
		nv := 1 + rng.Intn(50)
		for k := 0; k < nv && len(st) < 65536; k++ {
			budget := 60
			v := randTree(rng, 4, &budget)
			if v.T == "bulk" && len(v.P) > 2000 && k > 3 {
				v.P = v.P[:rng.Intn(200)]
			}
			st = append(st, encVal(v)...)
		}
		ev := chunkedEvent(st, randPartition(rng, len(st)))
		ev["src"] = "long"
		emit(ev)
	}
	// history: what the parser did for earlier values of the stream must not change what a later value yields.
	// Runs of one kind of value (null arrays and null bulks, empty and nested arrays, deep chains) followed by ordinary
	// values and requests; whole, byte-wise and random delivery.
	if *nlong > 0 {
		nest := func(d int, leaf Val) Val {
			for k := 0; k < d; k++ {
				leaf = Val{T: "arr", E: []Val{leaf}}
			}
			return leaf
		}
		ping := Val{T: "arr", E: []Val{{T: "bulk", P: []byte("PING")}}}
		kinds := []Val{{T: "narr"}, {T: "null"}, {T: "arr", E: []Val{}}, nest(3, Val{T: "narr"}), nest(4, Val{T: "int", P: []byte("7")}),
			{T: "arr", E: []Val{{T: "narr"}, {T: "narr"}, {T: "null"}}}, {T: "bulk", P: []byte{}}, {T: "err", P: []byte("e")}}
		for ki, kv := range kinds {
			runs := []int{1, 7, 8, 9, 17, 40}
			if ki < 4 {
				// beyond the parser's nesting limit (10000): per-stream bookkeeping that an early return forgets to undo
				// (a depth counter, a pooled buffer) only shows after that many values of the kind
				runs = append(runs, 10001, 12000)
			}
			for _, run := range runs {
				var st []byte
				for k := 0; k < run; k++ {
					st = append(st, encVal(kv)...)
				}
				nunit := len(st)
				st = append(st, encVal(ping)...)
				st = append(st, encVal(nest(4, Val{T: "bulk", P: []byte("x")}))...)
				st = append(st, encVal(Val{T: "arr", E: []Val{}})...)
				st = append(st, encVal(nest(9+ki, Val{T: "null"}))...)
				st = append(st, encVal(ping)...)
				one := make([]int, len(st))
				for i := range one {
					one[i] = 1
				}
				deliveries := [][]int{{len(st)}, one, randPartition(rng, len(st))}
				if run > 1000 {
					deliveries = [][]int{{len(st)}, randPartition(rng, len(st))}
				}
				for _, chunks := range deliveries {
					ev := chunkedEvent(st, chunks)
					ev["src"] = "history"
					if run > 1000 { // judged as a periodic stream (ChunkedRunOK): unit x run, then the tail
						ev["ev"] = "chunkedrun"
						ev["unit"], ev["run"], ev["tail"] = B(encVal(kv)), run, B(st[nunit:])
						delete(ev, "stream")
					}
					emit(ev)
				}
			}
		}
	}
	// long lines: status, error and integer payloads around and beyond 64 KiB (a line reader with a size limit must not
	// hand out a prefix as the value), followed by ordinary values
	if *nlong > 0 {
		lens, kinds := []int{65535, 65536, 70000}, []string{"str", "err", "int"}
		if *nlong >= 1000 {
			lens, kinds = []int{4095, 4096, 4097, 65535, 65536, 65537, 70000}, []string{"str", "err", "int"}
		}
		for _, n := range lens {
			for _, t := range kinds {
				p := bytes.Repeat([]byte("x"), n)
				if t == "int" {
					p = append([]byte("1"), bytes.Repeat([]byte("0"), n-1)...)
				}
				st := encVal(Val{T: "arr", E: []Val{{T: t, P: p}, {T: "bulk", P: []byte("after")}}})
				st = append(st, encVal(Val{T: t, P: p})...)
				st = append(st, encVal(Val{T: "str", P: []byte("OK")})...)
				st = append(st, encVal(Val{T: "int", P: []byte("1")})...)
				parts := [][]int{randPartition(rng, len(st))}
				if *nlong >= 1000 {
					parts = append(parts, []int{len(st)})
				}
				for _, chunks := range parts {
					ev := chunkedEvent(st, chunks)
					ev["src"] = "longline"
					emit(ev)
				}
			}
		}
	}
	must(rec.Close())
	fmt.Printf("c02: %d events\n", sc)
}

func init() { commands["c02"] = cmdC02 }
