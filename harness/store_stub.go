package main

import "github.com/cybergarage/go-redis/redis"

// installStore installs a store-backed handler; set in store.go.
var installStore func(rn *runner, server *redis.Server, kind string) any
