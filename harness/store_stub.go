package main

import "github.com/cybergarage/go-redis/redis"

// installStore installs a store-backed handler ("example" or "ref"); filled in by store.go.
var installStore = func(rn *runner, server *redis.Server, kind string) any {
	panic("store handlers not built in")
}
