package main

import (
	"bufio"
	"bytes"
	"encoding/json"
	"flag"
	"fmt"
	"math"
	"math/rand"
	"os"
	"strconv"

	"github.com/cybergarage/go-redis/redis"
	"github.com/cybergarage/go-redis/redis/proto"
)

// c01: RESP round trips.  Scenarios (value trees + canonical encodings) come
// from TLC; random/large ones are generated here from the seed.  Nothing is
// judged here: every observation is logged and TraceRESP.tla decides.

func accessor(v Val, m *proto.Message) (out Ev) {
	defer func() {
		if r := recover(); r != nil {
			out = Ev{"k": "fail", "msg": fmt.Sprint(r)}
		}
	}()
	if m == nil {
		return Ev{"k": "fail", "msg": "nil message"}
	}
	switch v.T {
	case "str", "bulk":
		s, err := m.String()
		if err != nil {
			return Ev{"k": "fail", "msg": err.Error()}
		}
		return Ev{"k": "bytes", "p": BS(s)}
	case "err":
		e, err := m.Error()
		if err != nil {
			return Ev{"k": "fail", "msg": err.Error()}
		}
		return Ev{"k": "bytes", "p": BS(e.Error())}
	case "int":
		n, err := m.Integer()
		if err != nil {
			return Ev{"k": "fail", "msg": err.Error()}
		}
		return Ev{"k": "bytes", "p": B(fmtInt(n))}
	case "null":
		if m.IsNil() {
			return Ev{"k": "nil"}
		}
		return Ev{"k": "fail", "msg": "not nil"}
	case "arr":
		a, err := m.Array()
		if err != nil {
			return Ev{"k": "fail", "msg": err.Error()}
		}
		return Ev{"k": "arr", "n": a.Size()}
	}
	return Ev{"k": "fail", "msg": "unknown"}
}

func parseTwo(b []byte) (first Val, reser []byte, second Val, acc func(Val) Ev) {
	p := proto.NewParserWithBytes(b)
	m, err, pan := nextSafe(p)
	acc = func(v Val) Ev { return Ev{"k": "fail", "msg": "no value"} }
	switch {
	case pan != "":
		return Val{T: "panic", M: pan}, []byte{}, Val{T: "none"}, acc
	case err != nil:
		return Val{T: "error", M: err.Error()}, []byte{}, Val{T: "none"}, acc
	case m == nil:
		return Val{T: "eof"}, []byte{}, Val{T: "none"}, acc
	}
	reser = reserSafe(m)
	mm := m
	acc = func(v Val) Ev { return accessor(v, mm) }
	m2, err2, pan2 := nextSafe(p)
	switch {
	case pan2 != "":
		second = Val{T: "panic", M: pan2}
	case err2 != nil:
		second = Val{T: "error", M: err2.Error()}
	case m2 == nil:
		second = Val{T: "eof"}
	default:
		second = Project(m2)
	}
	return Val{T: "pending"}, reser, second, acc
}

func rtEvent(v Val, enc []byte) Ev {
	ev := Ev{"ev": "rt", "v": v, "ser": []int{}, "parsed": Val{T: "none"}, "second": Val{T: "none"},
		"reser": []int{}, "acc": Ev{"k": "fail", "msg": "not run"}, "fail": ""}
	func() {
		defer func() {
			if r := recover(); r != nil {
				ev["fail"] = fmt.Sprintf("panic: %v", r)
			}
		}()
		m, err := Build(v)
		if err != nil {
			ev["fail"] = "build: " + err.Error()
			return
		}
		ser, err := m.RESPBytes()
		if err != nil {
			ev["fail"] = "serialize: " + err.Error()
			return
		}
		ev["ser"] = B(ser)
		first, reser, second, acc := parseTwo(ser)
		if first.T == "pending" {
			// accessor first (does not move array cursors), then project
			ev["acc"] = acc(v)
			pm, _, _ := nextSafe(proto.NewParserWithBytes(ser))
			first = Project(pm)
		}
		ev["parsed"] = first
		ev["reser"] = B(reser)
		ev["second"] = second
	}()
	if enc != nil {
		ev["enc"] = B(enc)
		first, reser, second, _ := parseTwo(enc)
		if first.T == "pending" {
			pm, _, _ := nextSafe(proto.NewParserWithBytes(enc))
			first = Project(pm)
		}
		ev["parsed2"] = first
		ev["reser2"] = B(reser)
		ev["second2"] = second
	}
	return ev
}

func floatEvent(f float64) Ev {
	m := redis.NewFloatMessage(f)
	ser, _ := m.RESPBytes()
	payload, _ := m.Bytes()
	back, err := strconv.ParseFloat(string(payload), 64)
	exact := err == nil && math.Float64bits(back) == math.Float64bits(f)
	first, _, second, _ := parseTwo(ser)
	if first.T == "pending" {
		pm, _, _ := nextSafe(proto.NewParserWithBytes(ser))
		first = Project(pm)
	}
	return Ev{"ev": "float", "ser": B(ser), "payload": B(payload), "parsed": first, "second": second,
		"bitexact": exact, "bits": fmt.Sprintf("%016x", math.Float64bits(f))}
}

func randBytes(rng *rand.Rand, n int, lineSafe bool) []byte {
	b := make([]byte, n)
	special := []byte{'\r', '\n', 0, '+', '-', ':', '$', '*'}
	for i := range b {
		switch rng.Intn(4) {
		case 0:
			b[i] = special[rng.Intn(len(special))]
		default:
			b[i] = byte(rng.Intn(256))
		}
		if lineSafe && (b[i] == '\r' || b[i] == '\n') {
			b[i] = 'x'
		}
	}
	return b
}

var bulkLens = []int{0, 1, 9, 10, 99, 100, 999, 1000, 65535, 65536}
var edgeInts = []int{0, 1, -1, 9, 10, -10, 1 << 31, -(1 << 31), 1<<31 - 1, math.MaxInt64, math.MinInt64, math.MaxInt64 - 1, math.MinInt64 + 1}

// forged suffixes placed after a CRLF inside bulk payloads
var forged = []string{"\r\n+OK\r\n", "\r\n:1\r\n", "\r\n$-1\r\n", "\r\n*0\r\n", "\r\n$3\r\nabc\r\n"}

func randLeaf(rng *rand.Rand, big bool) Val {
	switch rng.Intn(6) {
	case 0:
		return Val{T: "str", P: randBytes(rng, rng.Intn(40), true)}
	case 1:
		return Val{T: "err", P: randBytes(rng, rng.Intn(40), true)}
	case 2:
		if rng.Intn(2) == 0 {
			return Val{T: "int", P: fmtInt(edgeInts[rng.Intn(len(edgeInts))])}
		}
		return Val{T: "int", P: fmtInt(int(rng.Uint64()))}
	case 3:
		return Val{T: "null"}
	default:
		n := rng.Intn(64)
		if big {
			n = bulkLens[rng.Intn(len(bulkLens))]
		} else if rng.Intn(4) == 0 {
			n = bulkLens[rng.Intn(8)]
		}
		p := randBytes(rng, n, false)
		if rng.Intn(3) == 0 {
			f := []byte(forged[rng.Intn(len(forged))])
			at := 0
			if len(p) > 0 {
				at = rng.Intn(len(p) + 1)
			}
			p = append(append(append([]byte{}, p[:at]...), f...), p[at:]...)
		}
		return Val{T: "bulk", P: p}
	}
}

func randTree(rng *rand.Rand, depth int, budget *int) Val {
	if depth == 0 || rng.Intn(3) != 0 || *budget <= 0 {
		return randLeaf(rng, false)
	}
	n := rng.Intn(5)
	if rng.Intn(10) == 0 {
		n = 200
	}
	out := Val{T: "arr", E: []Val{}}
	for i := 0; i < n && *budget > 0; i++ {
		*budget--
		out.E = append(out.E, randTree(rng, depth-1, budget))
	}
	return out
}

func cmdC01(args []string) {
	fs := flag.NewFlagSet("c01", flag.ExitOnError)
	scen := fs.String("scenarios", "", "file with TLC-exported scenarios (one JSON object per line: v, enc)")
	out := fs.String("out", "", "trace file")
	seed := fs.Int64("seed", 1, "seed")
	nrand := fs.Int("random", 0, "number of random trees")
	nbig := fs.Int("big", 0, "number of large binary bulk payloads")
	nfloat := fs.Int("floats", 0, "number of random floats (plus boundary floats)")
	fs.Parse(args)
	rec, err := NewRecorder(*out)
	must(err)
	sc := 0
	emit := func(ev Ev) {
		sc++
		rec.Begin(sc)
		rec.Emit(ev)
	}
	if *scen != "" {
		f, err := os.Open(*scen)
		must(err)
		rd := bufio.NewReaderSize(f, 1<<20)
		for {
			line, err := rd.ReadBytes('\n')
			if len(bytes.TrimSpace(line)) > 0 {
				var s struct {
					V   Val   `json:"v"`
					Enc []int `json:"enc"`
				}
				must(json.Unmarshal(line, &s))
				ev := rtEvent(s.V, unB(s.Enc))
				ev["src"] = "tlc"
				emit(ev)
			}
			if err != nil {
				break
			}
		}
		f.Close()
	}
	rng := rand.New(rand.NewSource(*seed))
	for i := 0; i < *nrand; i++ {
		budget := 400
		v := randTree(rng, 6, &budget)
		if i%7 == 0 {
			v = randLeaf(rng, false)
		}
		ev := rtEvent(v, nil)
		ev["src"] = "random"
		emit(ev)
	}
	if *nrand > 0 { // deep nesting: a chain of arrays d deep around a leaf, with siblings before and after the nested element
		for _, d := range []int{5, 8, 9, 10, 16, 17, 33, 64} {
			for shape := 0; shape < 3; shape++ {
				v := randLeaf(rng, false)
				for k := 0; k < d; k++ {
					switch shape {
					case 0:
						v = Val{T: "arr", E: []Val{v}}
					case 1:
						v = Val{T: "arr", E: []Val{{T: "int", P: fmtInt(k)}, v}}
					default:
						v = Val{T: "arr", E: []Val{v, {T: "bulk", P: []byte("after")}, {T: "arr", E: []Val{}}}}
					}
				}
				ev := rtEvent(v, nil)
				ev["src"] = "deep"
				emit(ev)
			}
		}
	}
	for i := 0; i < *nbig; i++ {
		n := bulkLens[i%len(bulkLens)]
		ev := rtEvent(Val{T: "bulk", P: randBytes(rng, n, false)}, nil)
		ev["src"] = "big"
		emit(ev)
	}
	if *nfloat > 0 {
		fl := []float64{0, 1, -1, 1.5, -2, 0.1, 1e300, -1e300, 1e-300, math.MaxFloat64, math.SmallestNonzeroFloat64,
			math.Inf(1), math.Inf(-1), 1 << 53, 1<<53 + 2, 3.141592653589793, math.Copysign(0, -1)}
		// representation edges: every power of two up to 2^65 with both neighbours (2^31, 2^53, 2^63 and 2^64 are where integer
		// conversions change behaviour), the powers of ten where decimal formatting changes style, and whole numbers of every magnitude
		for k := 0; k <= 65; k++ {
			p2 := math.Ldexp(1, k)
			for _, v := range []float64{p2, math.Nextafter(p2, 0), math.Nextafter(p2, math.Inf(1)), p2 - 1, p2 + 1} {
				fl = append(fl, v, -v)
			}
		}
		for k := -25; k <= 25; k++ {
			p10 := math.Pow(10, float64(k))
			fl = append(fl, p10, -p10, 17*p10, math.Nextafter(p10, 0))
		}
		for i := 0; i < *nfloat; i++ {
			whole := math.Trunc(math.Ldexp(rng.Float64(), rng.Intn(70)))
			fl = append(fl, whole, -whole)
		}
		for i := 0; i < *nfloat; i++ {
			f := math.Float64frombits(rng.Uint64())
			if math.IsNaN(f) {
				continue
			}
			fl = append(fl, f)
		}
		for _, f := range fl {
			emit(floatEvent(f))
		}
	}
	must(rec.Close())
	fmt.Printf("c01: %d events\n", sc)
}
