package main

import (
	"bufio"
	"crypto/tls"
	"flag"
	"fmt"
	"math/rand"
	"net"
	"sync"
	"sync/atomic"
	"time"

	"github.com/cybergarage/go-redis/redis"
)

// racemix: the workload of C14 (run it from the -race build).  One real server;
// client goroutines mixing every command family with connection churn, CONFIG
// SET/GET, registry enumeration and Stop/Start/Restart, with randomized timing.
// The specification (Sync.tla) says which shared locations exist and which
// access pairs must be ordered; this workload makes each pair hot together and
// reports how often each kind of access ran (coverage), so that a pair that was
// never exercised is visible.  Race reports go to GORACE's log_path.

func cmdRaceMix(args []string) {
	fs := flag.NewFlagSet("racemix", flag.ExitOnError)
	out := fs.String("out", "", "trace file (coverage counters)")
	dur := fs.Int("ms", 3000, "duration in milliseconds")
	clients := fs.Int("clients", 8, "client goroutines")
	seed := fs.Int64("seed", 1, "seed")
	pass := fs.Bool("requirepass", false, "configure a password")
	fs.Parse(args)
	rec, err := NewRecorder(*out)
	must(err)
	rec.Begin(1)
	es := redis.NewServer()
	es.SetCommandHandler(newRefStore()) // a handler that is itself race-free: reports then concern framework state
	port := freePort()
	es.SetPort(port)
	if *pass {
		es.SetRequirePass(tlsPassword)
	}
	// a TLS port as well: handshakes run while Stop/Start/Restart replace (or must not touch) what they read
	p := newPKI()
	tlsp := freePort()
	es.SetTLSPort(tlsp)
	es.ServerCert, es.ServerKey, es.CACerts = p.serverPEM, p.keyPEM, p.rootPEM
	must(es.Start())
	var cnt struct{ connects, cmds, cfgset, cfgget, polls, restarts, stops, authed, tlsconns, patterns atomic.Int64 }
	stop := make(chan struct{})
	var wg sync.WaitGroup
	var life sync.RWMutex // lifecycle calls are issued by one goroutine; clients do not care whether the server is up
	_ = &life
	for c := 0; c < *clients; c++ {
		wg.Add(1)
		go func(c int) {
			defer wg.Done()
			rng := rand.New(rand.NewSource(*seed*1000 + int64(c)))
			for {
				select {
				case <-stop:
					return
				default:
				}
				overTLS := rng.Intn(4) == 0
				conn, err := net.DialTimeout("tcp", fmt.Sprintf("127.0.0.1:%d", map[bool]int{false: port, true: tlsp}[overTLS]), 200*time.Millisecond)
				if err != nil {
					time.Sleep(time.Millisecond)
					continue
				}
				if overTLS {
					raw := conn
					tc := tls.Client(raw, &tls.Config{RootCAs: p.rootPool, ServerName: "localhost", Certificates: p.clients["ok"], MinVersion: tls.VersionTLS12})
					raw.SetDeadline(time.Now().Add(300 * time.Millisecond))
					if tc.Handshake() != nil {
						raw.Close()
						continue
					}
					conn = tc
					cnt.tlsconns.Add(1)
				}
				cnt.connects.Add(1)
				rd := bufio.NewReader(conn)
				do := func(args ...string) bool {
					conn.SetDeadline(time.Now().Add(300 * time.Millisecond))
					if _, err := conn.Write(request(args...)); err != nil {
						return false
					}
					if _, err := rd.ReadString('\n'); err != nil {
						return false
					}
					cnt.cmds.Add(1)
					return true
				}
				if *pass && rng.Intn(4) != 0 {
					if do("AUTH", tlsPassword) {
						cnt.authed.Add(1)
					}
				}
				for n := rng.Intn(12); n > 0; n-- {
					k := fmt.Sprintf("k%d", rng.Intn(4))
					ok := true
					switch rng.Intn(12) {
					case 0:
						ok = do("CONFIG", "SET", fmt.Sprintf("p%d", rng.Intn(3)), fmt.Sprint(rng.Intn(100)))
						cnt.cfgset.Add(1)
					case 1:
						// by name, by several names, and with glob characters (a server that supports patterns enumerates its parameters)
						switch rng.Intn(4) {
						case 0:
							ok = do("CONFIG", "GET", "*")
						case 1:
							ok = do("CONFIG", "GET", "p*")
						case 2:
							ok = do("CONFIG", "GET", "p0", "p1", "requirepass")
						default:
							ok = do("CONFIG", "GET", fmt.Sprintf("p%d", rng.Intn(3)))
						}
						cnt.cfgget.Add(1)
					case 2:
						ok = do("SET", k, "v")
					case 3:
						ok = do("GET", k)
					case 4:
						ok = do("INCR", "counter")
					case 5:
						ok = do("LPUSH", "l"+k, "a", "b")
					case 6:
						ok = do("SADD", "s"+k, "m")
					case 7:
						ok = do("HSET", "h"+k, "f", "v")
					case 8:
						ok = do("ZADD", "z"+k, "1", "m")
					case 9:
						ok = do("SELECT", fmt.Sprint(rng.Intn(3)))
					case 10:
						ok = do("PING")
					case 11:
						// many distinct patterns, each used again and again (more than any pattern cache holds)
						pat := fmt.Sprintf("k%d*", rng.Intn(1500))
						switch rng.Intn(4) {
						case 0:
							ok = do("KEYS", "*")
						case 1:
							ok = do("KEYS", pat)
						case 2:
							ok = do("SCAN", "0", "MATCH", pat)
						default:
							ok = do("CONFIG", "GET", "p"+pat)
						}
						cnt.patterns.Add(1)
					}
					if !ok {
						break
					}
				}
				switch rng.Intn(3) {
				case 0:
					do("QUIT")
				case 1:
					if tc, ok := conn.(*net.TCPConn); ok {
						tc.SetLinger(0)
					}
				}
				conn.Close()
			}
		}(c)
	}
	for pc := 0; pc < 3; pc++ { // pattern clients: a recurring stream of more distinct patterns than any pattern cache holds
		wg.Add(1)
		go func(pc int) {
			defer wg.Done()
			i := pc * 400
			for {
				conn, err := net.DialTimeout("tcp", fmt.Sprintf("127.0.0.1:%d", port), 200*time.Millisecond)
				if err != nil {
					select {
					case <-stop:
						return
					case <-time.After(time.Millisecond):
					}
					continue
				}
				rd := bufio.NewReader(conn)
				for {
					select {
					case <-stop:
						conn.Close()
						return
					default:
					}
					i++
					conn.SetDeadline(time.Now().Add(300 * time.Millisecond))
					if _, err := conn.Write(request("KEYS", fmt.Sprintf("k%d*", i%1300))); err != nil {
						break
					}
					// (the reply is an array: read its header and elements loosely - only the traffic matters here)
					if _, err := rd.ReadString('\n'); err != nil {
						break
					}
					for rd.Buffered() > 0 {
						rd.ReadString('\n')
					}
					cnt.patterns.Add(1)
				}
				conn.Close()
			}
		}(pc)
	}
	wg.Add(1)
	go func() { // registry enumeration
		defer wg.Done()
		for {
			select {
			case <-stop:
				return
			default:
			}
			for _, c := range es.Conns() {
				es.ConnByUUID(c.UUID())
			}
			cnt.polls.Add(1)
			time.Sleep(50 * time.Microsecond)
		}
	}()
	wg.Add(1)
	go func() { // lifecycle
		defer wg.Done()
		rng := rand.New(rand.NewSource(*seed))
		for {
			select {
			case <-stop:
				return
			case <-time.After(time.Duration(5+rng.Intn(40)) * time.Millisecond):
			}
			if rng.Intn(2) == 0 {
				if es.Restart() == nil {
					cnt.restarts.Add(1)
				}
			} else {
				es.Stop()
				cnt.stops.Add(1)
				time.Sleep(time.Duration(rng.Intn(3)) * time.Millisecond)
				for tries := 0; es.Start() != nil && tries < 300; tries++ {
					time.Sleep(time.Millisecond)
				}
			}
		}
	}()
	time.Sleep(time.Duration(*dur) * time.Millisecond)
	close(stop)
	wg.Wait()
	es.Stop()
	rec.Emit(Ev{"ev": "mix", "connects": cnt.connects.Load(), "cmds": cnt.cmds.Load(), "cfgset": cnt.cfgset.Load(), "cfgget": cnt.cfgget.Load(),
		"polls": cnt.polls.Load(), "restarts": cnt.restarts.Load(), "stops": cnt.stops.Load(), "authed": cnt.authed.Load(), "tlsconns": cnt.tlsconns.Load(), "patterns": cnt.patterns.Load(), "clients": *clients, "requirepass": *pass})
	rec.End()
	must(rec.Close())
	fmt.Printf("racemix: %d connects, %d commands, %d restarts\n", cnt.connects.Load(), cnt.cmds.Load(), cnt.restarts.Load())
}

func init() { commands["racemix"] = cmdRaceMix }
