package main

import (
	"bufio"
	"bytes"
	"encoding/json"
	"flag"
	"fmt"
	"net"
	"os"
	"time"

	exserver "github.com/cybergarage/go-redis/examples/go-redisd/server"
)

// crashprobe: C07 at process level.  Run as a SUBPROCESS: a real example
// server on loopback receives hostile inputs (raw byte strings, one connection
// each, closed in different ways); a persistent witness connection and a fresh
// probe connection must keep being served.  If the process dies the parent
// sees the exit status; the last "input" event names the killer.

func cmdCrashProbe(args []string) {
	fs := flag.NewFlagSet("crashprobe", flag.ExitOnError)
	in := fs.String("inputs", "", "file with JSON lines: {\"b\": [bytes]}")
	out := fs.String("out", "", "trace file")
	every := fs.Int("probe-every", 25, "probe after this many inputs")
	fs.Parse(args)
	rec, err := NewRecorder(*out)
	must(err)
	rec.Begin(1)
	es := exserver.NewServer()
	port := freePort()
	es.SetPort(port)
	rec.Emit(Ev{"ev": "scenario", "prog": []string{"Start", "hostile inputs"}, "kinds": []string{"plain"}})
	rec.Emit(Ev{"ev": "call", "call": "Start", "phase": "starting"})
	must(es.Start())
	rec.Emit(Ev{"ev": "ret", "call": "Start", "err": "", "phase": "running"})
	witness, err := net.Dial("tcp", fmt.Sprintf("127.0.0.1:%d", port))
	must(err)
	wr := bufio.NewReader(witness)
	wseq := 0
	witnessOK := func() bool {
		wseq++
		v := fmt.Sprintf("w%d", wseq)
		witness.SetDeadline(time.Now().Add(time.Second))
		witness.Write(request("SET", "witness-key", v))
		if l, err := wr.ReadString('\n'); err != nil || l != "+OK\r\n" {
			return false
		}
		witness.Write(request("GET", "witness-key"))
		l1, err1 := wr.ReadString('\n')
		l2, err2 := wr.ReadString('\n')
		return err1 == nil && err2 == nil && l1 == fmt.Sprintf("$%d\r\n", len(v)) && l2 == v+"\r\n"
	}
	f, err := os.Open(*in)
	must(err)
	rd := bufio.NewReaderSize(f, 1<<22)
	n := 0
	for {
		line, err := rd.ReadBytes('\n')
		if len(bytes.TrimSpace(line)) > 0 {
			var o struct {
				B   []int   `json:"b"`
				Gen *bigGen `json:"gen"` // a large generated input (see c06.go) instead of literal bytes
			}
			must(json.Unmarshal(line, &o))
			n++
			if o.Gen != nil {
				// sent completely, however long the server takes to read it (a parser that reads byte by byte needs a while)
				if c, err := net.DialTimeout("tcp", fmt.Sprintf("127.0.0.1:%d", port), time.Second); err == nil {
					c.SetDeadline(time.Now().Add(120 * time.Second))
					c.Write(o.Gen.build())
					c.(*net.TCPConn).CloseWrite()
					buf := make([]byte, 512)
					c.Read(buf)
					c.Close()
				}
				d, s := probe(port)
				rec.Emit(Ev{"ev": "obs", "kind": "probe", "port": "plain", "dialed": d, "served": s && witnessOK(), "where": fmt.Sprintf("after generated input %d (%s x %d)", n, o.Gen.Gen, o.Gen.N), "phase": "running"})
				continue
			}
			if n%*every == 1 {
				rec.Emit(Ev{"ev": "point", "point": "input", "id": fmt.Sprint(n), "gated": false})
				rec.w.Flush()
			}
			if c, err := net.DialTimeout("tcp", fmt.Sprintf("127.0.0.1:%d", port), time.Second); err == nil {
				c.SetDeadline(time.Now().Add(300 * time.Millisecond))
				c.Write(unB(o.B))
				switch n % 3 {
				case 0:
					c.(*net.TCPConn).CloseWrite()
					buf := make([]byte, 512)
					c.Read(buf)
				case 1:
					buf := make([]byte, 512)
					c.SetReadDeadline(time.Now().Add(3 * time.Millisecond))
					c.Read(buf)
				case 2:
					c.(*net.TCPConn).SetLinger(0)
				}
				c.Close()
			}
			if n%*every == 0 {
				d, s := probe(port)
				rec.Emit(Ev{"ev": "obs", "kind": "probe", "port": "plain", "dialed": d, "served": s && witnessOK(), "where": fmt.Sprintf("after input %d", n), "phase": "running"})
			}
		}
		if err != nil {
			break
		}
	}
	d, s := probe(port)
	rec.Emit(Ev{"ev": "obs", "kind": "probe", "port": "plain", "dialed": d, "served": s && witnessOK(), "where": "final", "phase": "running"})
	witness.Close()
	es.Stop()
	rec.End()
	must(rec.Close())
	fmt.Printf("crashprobe: %d inputs\n", n)
}

func init() { commands["crashprobe"] = cmdCrashProbe }
