package main

import (
	"bufio"
	"bytes"
	"encoding/json"
	"flag"
	"fmt"
	"io"
	"math/rand"
	"os"
	"os/exec"
)

// c06: hostile input to the parser.  Inputs whose declared sizes could make the
// process die (allocation bombs) are run in a worker subprocess under a
// virtual-memory limit; death of the worker is the observation "alive=false".

func hostileResults(input []byte) []Val {
	res, _ := parseAll(bytes.NewBuffer(append([]byte{}, input...)), len(input)+2, false)
	return res
}

// risky: a '$' or '*' followed by 7 or more digits
func risky(in []byte) bool {
	for i, c := range in {
		if c == '$' || c == '*' {
			n := 0
			for j := i + 1; j < len(in) && in[j] >= '0' && in[j] <= '9'; j++ {
				n++
			}
			if n >= 7 {
				return true
			}
		}
	}
	return false
}

func cmdC06Worker(args []string) {
	rd := bufio.NewReaderSize(os.Stdin, 1<<22)
	w := bufio.NewWriter(os.Stdout)
	for {
		line, err := rd.ReadBytes('\n')
		if len(bytes.TrimSpace(line)) > 0 && bytes.TrimSpace(line)[0] == '{' {
			// a generated input that is too large to ship or to hand to TLC: build it here, report outcome types only
			var g bigGen
			must(json.Unmarshal(line, &g))
			res := hostileResults(g.build())
			types := []Val{}
			for _, v := range res {
				types = append(types, Val{T: v.T})
			}
			b, _ := json.Marshal(types)
			w.Write(b)
			w.WriteByte('\n')
			w.Flush()
		} else if len(bytes.TrimSpace(line)) > 0 {
			var in []int
			must(json.Unmarshal(line, &in))
			res := hostileResults(unB(in))
			b, _ := json.Marshal(res)
			w.Write(b)
			w.WriteByte('\n')
			w.Flush()
		}
		if err != nil {
			return
		}
	}
}

// bigGen describes a large generated input: Unit repeated N times, then Tail.
type bigGen struct {
	Gen  string `json:"gen"`
	Unit string `json:"unit"`
	N    int    `json:"n"`
	Tail string `json:"tail"`
}

func (g bigGen) build() []byte {
	return append(bytes.Repeat([]byte(g.Unit), g.N), g.Tail...)
}

// runGen runs one generated input in its own limited worker; nil = the worker died.
func runGen(g bigGen, vmKB int) []Val {
	self, _ := os.Executable()
	cmd := exec.Command("sh", "-c", fmt.Sprintf("ulimit -v %d; exec %s c06worker", vmKB, self))
	b, _ := json.Marshal(g)
	cmd.Stdin = bytes.NewReader(append(b, '\n'))
	cmd.Stderr = io.Discard
	out, err := cmd.Output()
	if err != nil || len(bytes.TrimSpace(out)) == 0 {
		return nil
	}
	var res []Val
	if json.Unmarshal(bytes.TrimSpace(out), &res) != nil {
		return nil
	}
	return res
}

// runInWorker runs inputs one after another in limited subprocesses; an input
// that kills its worker gets a nil result.
func runInWorker(inputs [][]byte, vmKB int) [][]Val {
	out := make([][]Val, len(inputs))
	self, _ := os.Executable()
	i := 0
	for i < len(inputs) {
		cmd := exec.Command("sh", "-c", fmt.Sprintf("ulimit -v %d; exec %s c06worker", vmKB, self))
		stdin, err := cmd.StdinPipe()
		must(err)
		stdout, err := cmd.StdoutPipe()
		must(err)
		cmd.Stderr = io.Discard
		must(cmd.Start())
		rd := bufio.NewReaderSize(stdout, 1<<22)
		for i < len(inputs) {
			b, _ := json.Marshal(B(inputs[i]))
			if _, err := stdin.Write(append(b, '\n')); err != nil {
				break
			}
			line, err := rd.ReadBytes('\n')
			if err != nil || len(line) == 0 {
				break // worker died on input i
			}
			var res []Val
			if json.Unmarshal(line, &res) != nil {
				break
			}
			out[i] = res
			i++
		}
		stdin.Close()
		cmd.Wait()
		if i < len(inputs) && out[i] == nil {
			i++ // skip the killer, continue with a fresh worker
		}
	}
	return out
}

func mutate(rng *rand.Rand, s []byte) []byte {
	s = append([]byte{}, s...)
	nums := []string{"2147483647", "2147483648", "9223372036854775806", "9223372036854775807", "10000000000000", "-1",
		"-9223372036854775808", "", "+5", "1x", "99999999999", "4294967296", "1048577"}
	alpha := []byte("*$+-:19\r\n\x00a")
	for k := 1 + rng.Intn(3); k > 0 && len(s) > 0; k-- {
		i := rng.Intn(len(s))
		switch rng.Intn(6) {
		case 0:
			s = s[:i]
		case 1:
			s = append(s[:i], s[i+1:]...)
		case 2:
			s = append(s[:i+1], s[i:]...)
		case 3:
			s[i] = alpha[rng.Intn(len(alpha))]
		case 4:
			j := rng.Intn(len(s))
			s = append(append([]byte{}, s[:i]...), s[j:]...)
		case 5:
			var hs []int
			for x, c := range s {
				if c == '$' || c == '*' {
					hs = append(hs, x)
				}
			}
			if len(hs) > 0 {
				h := hs[rng.Intn(len(hs))]
				e := h + 1
				for e < len(s) && s[e] != '\r' && s[e] != '\n' {
					e++
				}
				s = append(append(append([]byte{}, s[:h+1]...), nums[rng.Intn(len(nums))]...), s[e:]...)
			}
		}
	}
	return s
}

func cmdC06(args []string) {
	fs := flag.NewFlagSet("c06", flag.ExitOnError)
	scen := fs.String("scenarios", "", "TLC-exported mutants: input")
	out := fs.String("out", "", "trace file")
	seed := fs.Int64("seed", 1, "seed")
	exh := fs.Int("exhaustive", 0, "all byte strings up to this length over the framing alphabet")
	nrand := fs.Int("random", 0, "random mutations of random valid streams")
	maxBytes := fs.Int("max-bytes", 4096, "size bound of random valid streams before mutation")
	vm := fs.Int("vm-kb", 4*1024*1024, "virtual memory limit of the worker (KiB)")
	fs.Parse(args)
	rec, err := NewRecorder(*out)
	must(err)
	var inputs [][]byte
	var srcs []string
	add := func(b []byte, src string) { inputs = append(inputs, b); srcs = append(srcs, src) }
	if *exh > 0 {
		alpha := []byte{'*', '$', '+', '-', '1', '9', '\r', '\n'}
		var gen func(prefix []byte, n int)
		gen = func(prefix []byte, n int) {
			add(append([]byte{}, prefix...), "exhaustive")
			if n == 0 {
				return
			}
			for _, c := range alpha {
				gen(append(prefix, c), n-1)
			}
		}
		gen(nil, *exh)
	}
	if *scen != "" {
		f, err := os.Open(*scen)
		must(err)
		rd := bufio.NewReaderSize(f, 1<<20)
		for {
			line, err := rd.ReadBytes('\n')
			if len(bytes.TrimSpace(line)) > 0 {
				var s struct {
					Input []int `json:"input"`
				}
				must(json.Unmarshal(line, &s))
				add(unB(s.Input), "tlc-mutant")
			}
			if err != nil {
				break
			}
		}
		f.Close()
	}
	rng := rand.New(rand.NewSource(*seed))
	for i := 0; i < *nrand; i++ {
		var st []byte
		nv := 1 + rng.Intn(6)
		for k := 0; k < nv && len(st) < *maxBytes; k++ {
			budget := 30
			st = append(st, encVal(randTree(rng, 4, &budget))...)
		}
		if i%50 == 0 { // a few big ones (up to 1 MiB)
			st = append(st, encVal(Val{T: "bulk", P: randBytes(rng, 1<<uint(10+rng.Intn(11)), false)})...)
		}
		add(mutate(rng, st), "random-mutant")
	}
	// arrays with more elements than any pre-sized slice or block the parser may use (complete, cut off, nested)
	if *exh > 0 {
		for _, n := range []int{1023, 1024, 1025, 2047, 2049, 3000} {
			body := bytes.Repeat([]byte(":1\r\n"), n)
			hdr := []byte(fmt.Sprintf("*%d\r\n", n))
			add(append(append([]byte{}, hdr...), body...), "big-array")
			add(append(append([]byte{}, hdr...), body[:len(body)-4]...), "big-array")
			add(append(append([]byte("*2\r\n"), append(append([]byte{}, hdr...), body...)...), "+OK\r\n"...), "big-array")
		}
	}
	// classify and run
	var riskyIdx []int
	var riskyIn [][]byte
	results := make([][]Val, len(inputs))
	for i, in := range inputs {
		if risky(in) {
			riskyIdx = append(riskyIdx, i)
			riskyIn = append(riskyIn, in)
		} else {
			results[i] = hostileResults(in)
		}
	}
	wres := runInWorker(riskyIn, *vm)
	for k, i := range riskyIdx {
		results[i] = wres[k]
	}
	for i, in := range inputs {
		rec.Begin(i + 1)
		alive := results[i] != nil
		res := results[i]
		if res == nil {
			res = []Val{}
		}
		rec.Emit(Ev{"ev": "hostile", "input": B(in), "res": res, "alive": alive, "src": srcs[i], "isolated": risky(in)})
	}
	// nesting: "*1\r\n" repeated n times, complete (a leaf follows) or cut off; far deeper than any stack allows
	id := len(inputs)
	if *exh > 0 {
		// each level is "*1" or a two-element array whose first element is a complete sibling (a null or empty array, a null
		// bulk, an integer): depth bookkeeping that a sibling's early return disturbs must not un-count the nesting
		for ui, unit := range []string{"*1\r\n", "*2\r\n*-1\r\n", "*2\r\n$-1\r\n", "*2\r\n*0\r\n", "*2\r\n:1\r\n"} {
			depths := []int{10, 1000, 9999, 10000, 10001, 100000, 6000000}
			if ui > 0 {
				depths = []int{1000, 10001, 6000000}
			}
			for _, n := range depths {
				for _, tail := range []string{":1\r\n", ""} {
					g := bigGen{Gen: "nest", Unit: unit, N: n, Tail: tail}
					res := runGen(g, *vm)
					id++
					rec.Begin(id)
					alive := res != nil
					if res == nil {
						res = []Val{}
					}
					rec.Emit(Ev{"ev": "hostilebig", "gen": g.Gen, "n": g.N, "complete": tail != "", "res": res, "alive": alive,
						"src": "nesting", "input": B([]byte(fmt.Sprintf("(%q) x %d%s", unit, g.N, map[bool]string{true: " :1 CRLF", false: ""}[tail != ""])))})
				}
			}
		}
	}
	must(rec.Close())
	fmt.Printf("c06: %d inputs, %d isolated\n", len(inputs), len(riskyIdx))
}

func init() {
	commands["c06"] = cmdC06
	commands["c06worker"] = cmdC06Worker
}
