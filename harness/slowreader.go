package main

import (
	"bufio"
	"flag"
	"fmt"
	"io"
	"net"
	"strconv"
	"strings"
	"time"

	exserver "github.com/cybergarage/go-redis/examples/go-redisd/server"
)

// slowreader: C04 on a real socket with a client that stops reading in the middle of a large reply for longer than any
// plausible write timeout and then goes on.  What arrives must still be one complete bulk followed by the next reply -
// or, if the server gave the client up, a stream that simply ends.  Only measured here (declared length, payload bytes
// received, the two bytes after the payload, what followed); TraceRESP!BigReadOK judges.
func cmdSlowReader(args []string) {
	fs := flag.NewFlagSet("slowreader", flag.ExitOnError)
	out := fs.String("out", "", "trace file")
	stall := fs.Int("stall-ms", 12000, "how long the client does not read")
	size := fs.Int("size", 24<<20, "size of the stored value")
	fs.Parse(args)
	rec, err := NewRecorder(*out)
	must(err)
	rec.Begin(1)
	es := exserver.NewServer()
	port := freePort()
	es.SetPort(port)
	must(es.Start())
	defer es.Stop()
	c, err := net.DialTimeout("tcp", fmt.Sprintf("127.0.0.1:%d", port), time.Second)
	must(err)
	defer c.Close()
	rd := bufio.NewReaderSize(c, 1<<16)
	c.SetDeadline(time.Now().Add(60 * time.Second))
	_, err = c.Write(request("SET", "big", strings.Repeat("a", *size)))
	must(err)
	line, err := rd.ReadString('\n')
	if err != nil || line != "+OK\r\n" {
		must(fmt.Errorf("SET of the big value failed: %q %v", line, err))
	}
	c.Write(request("GET", "big"))
	time.Sleep(time.Duration(*stall) * time.Millisecond) // the server is blocked in the reply write all this time
	c.Write(request("PING"))
	c.SetDeadline(time.Now().Add(20 * time.Second))
	ev := Ev{"ev": "bigread", "stall_ms": *stall, "declared": -1, "payload": 0, "term": []int{}, "rest": []int{}, "eof": false}
	hdr, err := rd.ReadString('\n')
	if err == nil && strings.HasPrefix(hdr, "$") {
		n, _ := strconv.Atoi(strings.TrimSpace(hdr[1:]))
		ev["declared"] = n
		got, err := io.CopyN(io.Discard, rd, int64(n))
		ev["payload"] = int(got)
		if err == nil {
			term := make([]byte, 2)
			if _, err := io.ReadFull(rd, term); err == nil {
				ev["term"] = B(term)
				c.SetReadDeadline(time.Now().Add(2 * time.Second))
				rest := make([]byte, 64)
				k, _ := io.ReadAtLeast(rd, rest, 7)
				ev["rest"] = B(rest[:k])
			}
		} else if err == io.EOF || strings.Contains(err.Error(), "reset") || strings.Contains(err.Error(), "EOF") {
			ev["eof"] = true
		}
	} else if err != nil {
		ev["eof"] = true
	}
	rec.Emit(ev)
	rec.End()
	must(rec.Close())
	fmt.Println("slowreader: done")
}

func init() { commands["slowreader"] = cmdSlowReader }
