package main

import (
	"fmt"
	"io"
	"runtime/debug"

	"github.com/cybergarage/go-redis/redis/proto"
)

// nextSafe calls Next() and converts a panic into a Val.
func nextSafe(p *proto.Parser) (m *proto.Message, err error, pan string) {
	defer func() {
		if r := recover(); r != nil {
			pan = fmt.Sprintf("%v\n%s", r, firstFrames(debug.Stack(), 12))
		}
	}()
	m, err = p.Next()
	return
}

func firstFrames(stack []byte, n int) string {
	lines := 0
	for i, c := range stack {
		if c == '\n' {
			lines++
			if lines >= n*2 {
				return string(stack[:i])
			}
		}
	}
	return string(stack)
}

// parseAll reads values until end of stream, error or panic (at most max calls).
// Results: value, {"t":"eof"}, {"t":"error"}, {"t":"panic"}; "reser" of every
// returned value is collected separately when wantReser is set.
func parseAll(r io.Reader, max int, wantReser bool) (res []Val, reser [][]byte) {
	p := proto.NewParserWithReader(r)
	for i := 0; i < max; i++ {
		m, err, pan := nextSafe(p)
		if pan != "" {
			res = append(res, Val{T: "panic", M: pan})
			return
		}
		if err != nil {
			res = append(res, Val{T: "error", M: err.Error()})
			return
		}
		if m == nil {
			res = append(res, Val{T: "eof"})
			return
		}
		if wantReser {
			reser = append(reser, reserSafe(m))
		}
		res = append(res, Project(m))
	}
	res = append(res, Val{T: "toomany"})
	return
}

func reserSafe(m *proto.Message) (out []byte) {
	defer func() {
		if r := recover(); r != nil {
			out = []byte(fmt.Sprintf("PANIC %v", r))
		}
	}()
	b, err := m.RESPBytes()
	if err != nil {
		return []byte("ERROR " + err.Error())
	}
	return b
}

func newParserOver(r io.Reader) *proto.Parser { return proto.NewParserWithReader(r) }
