package main

import (
	"bufio"
	"bytes"
	"encoding/json"
	"flag"
	"fmt"
	"os"
	"runtime"
	"runtime/debug"
	"strconv"
	"strings"
	"sync"
	"time"

	exserver "github.com/cybergarage/go-redis/examples/go-redisd/server"
	"github.com/cybergarage/go-redis/redis"
	"github.com/cybergarage/go-redis/redis/proto"
)

// Req is one request of a scenario: a command name and argument tokens (sent
// as an array of bulk strings), or a raw frame sent verbatim.
type Req struct {
	Cls   string          `json:"cls"`  // class annotation, passed through to the trace
	Name  string          `json:"name"` // command name as sent (any letter case)
	Args  []Tok           `json:"args"`
	Frame []int           `json:"frame"` // if present: sent instead of name/args
	Meta  json.RawMessage `json:"meta"`  // passed through
}

func (r Req) encode() []byte {
	if r.Frame != nil {
		return unB(r.Frame)
	}
	v := Val{T: "arr", E: []Val{{T: "bulk", P: []byte(r.Name)}}}
	for _, a := range r.Args {
		b, ok := tokBytes(a)
		if !ok {
			v.E = append(v.E, Val{T: "null"})
		} else {
			v.E = append(v.E, Val{T: "bulk", P: b})
		}
	}
	return encVal(v)
}

func (r Req) annotate() Ev {
	args := []Ev{}
	for _, a := range r.Args {
		a.normalize()
		b, ok := tokBytes(a)
		if !ok {
			b = []byte{}
		}
		sym := ""
		if ok {
			sym = symOf(string(b))
		}
		fs := ""
		if a.K == "int" {
			fs = a.S
		}
		args = append(args, Ev{"k": a.K, "s": sym, "n": a.N, "big": a.Big, "f": a.F, "fs": fs, "ex": a.Ex, "w": a.W, "b": B(b)})
	}
	ev := Ev{"cls": r.Cls, "name": strings.ToUpper(r.Name), "args": args, "frame": r.Frame != nil}
	return ev
}

type Step struct {
	C        int    `json:"c"`
	Op       string `json:"op"` // send halfclose fullclose
	Reqs     []Req  `json:"reqs"`
	Chunking string `json:"chunking"` // whole (default) | bytes | perreq | split
	At       int    `json:"at"`       // for chunking=split: first chunk size
	Chunks   []int  `json:"chunks"`   // explicit chunk sizes
	Cut      int    `json:"cut"`      // >0: deliver only the first Cut bytes of the encoded pipeline
	CutAll   bool   `json:"cutall"`   // expand into one scenario per cut offset 1..total
	WFailAt  int    `json:"wfailat"`  // op=wfail: writes fail once this many bytes were written
	Name     string `json:"name"`     // op=register: the command name the application executor is registered under
	Tag      string `json:"tag"`      // op=register: what the executor records as its method and replies ("R:"+tag)
}

type Scenario struct {
	ID          int    `json:"id"`
	RequirePass string `json:"requirepass"` // symbol of the configured password, "" for none
	Handler     string `json:"handler"`     // rec | ref | example | none
	Tracer      bool   `json:"tracer"`
	AuthDouble  bool   `json:"authdouble"`
	NConns      int    `json:"nconns"`
	Steps       []Step `json:"steps"`
	CustomExec  bool   `json:"customexec"` // register application executors MYCMD / mycmd2
	Concurrent  bool   `json:"concurrent"` // every connection is driven by its own goroutine (true concurrency)
	Model       bool   `json:"model"`      // replies (and the ref store's contents) are judged against RedisModel.tla
	PassCycle   bool   `json:"passcycle"`  // earlier runs of the same server object: Start/Stop with the password, Start/Stop without, then this run
	CloseFail   bool   `json:"closefail"`  // the transport's Close reports an error (after closing), as a TLS connection whose peer vanished does
	SlowWrite   bool   `json:"slowwrite"`  // the scripted transport's Write is slow (see sconn.slow)
	ModelConns  []int  `json:"modelconns"` // if set: only these connections are judged against the model (C07: the witness), no store dumps
}

func goid() int64 {
	var buf [64]byte
	n := runtime.Stack(buf[:], false)
	f := strings.Fields(string(buf[:n]))
	if len(f) >= 2 {
		id, _ := strconv.ParseInt(f[1], 10, 64)
		return id
	}
	return -1
}

type connRun struct {
	sc      *sconn
	done    chan struct{}
	sentAt  time.Time
	stalled bool
}

type runner struct {
	rec     *Recorder
	timeout time.Duration
	gmu     sync.Mutex
	g2c     map[int64]int

	customExec func(tag string) redis.Executor
}

func (rn *runner) curConn() int {
	rn.gmu.Lock()
	defer rn.gmu.Unlock()
	if c, ok := rn.g2c[goid()]; ok {
		return c
	}
	return -1
}

func (rn *runner) newServer(s Scenario, conns []*connRun) (*redis.Server, any) {
	server := redis.NewServer()
	if s.Handler == "example" {
		server = exserver.NewServer().Server // the bundled example store registers itself as the handler
	}
	server.SetPort(0)
	var handler any
	switch s.Handler {
	case "example":
	case "", "rec":
		h := &recHandler{rec: rn.rec, server: server, t0: func(c int) time.Time {
			if c >= 0 && c < len(conns) {
				return conns[c].sentAt
			}
			return time.Now()
		}}
		server.SetCommandHandler(h)
		if s.AuthDouble {
			server.SetAuthCommandHandler(h)
		}
		handler = h
	case "none":
	default:
		handler = installStore(rn, server, s.Handler)
	}
	if s.Tracer {
		server.SetTracer(&recTracer{rec: rn.rec, cur: rn.curConn})
	}
	if s.RequirePass != "" {
		server.SetRequirePass(symBytes[s.RequirePass])
	}
	if s.PassCycle && s.RequirePass != "" {
		// the server has been run before: with the password, then without one, and now requires it again
		must(server.Start())
		must(server.Stop())
		server.RemoveRequirePass()
		must(server.Start())
		must(server.Stop())
		server.SetRequirePass(symBytes[s.RequirePass])
	}
	exec := func(tag string) redis.Executor {
		return func(conn *redis.Conn, cmd string, args redis.Arguments) (*redis.Message, error) {
			rest := []string{}
			for {
				a, err := args.NextString()
				if err != nil {
					break
				}
				rest = append(rest, a)
			}
			rn.rec.Emit(Ev{"ev": "call", "c": connID(conn), "m": tag, "a": A(L(rest)), "opt": Ev{"none": true}, "db": dbRec(conn.Database()),
				"auth": conn.IsAuthrized(), "inreg": true, "ud": "", "lag_ms": 0})
			res := result{kind: "val", v: Val{T: "bulk", P: []byte("R:" + tag)}}
			rn.rec.Emit(Ev{"ev": "callret", "c": connID(conn), "m": tag, "res": res.json()})
			return res.ret()
		}
	}
	rn.customExec = exec // scenarios of one runner run one after the other
	if s.CustomExec {
		server.RegisterExexutor("MYCMD", exec("MyCmd"))
	}
	// Start with both ports disabled only registers the password authenticator
	// exactly as the production start-up path does.
	if err := server.Start(); err != nil {
		must(err)
	}
	return server, handler
}

func (rn *runner) serve(server *redis.Server, cr *connRun) {
	go func() {
		rn.gmu.Lock()
		rn.g2c[goid()] = cr.sc.id
		rn.gmu.Unlock()
		pan := ""
		errs := ""
		func() {
			defer func() {
				if r := recover(); r != nil {
					pan = fmt.Sprintf("%v\n%s", r, firstFrames(debug.Stack(), 14))
				}
			}()
			if err := server.VerifServeConn(cr.sc); err != nil {
				errs = err.Error()
			}
		}()
		inreg := false
		for _, c := range server.Conns() {
			if c.Conn == cr.sc {
				inreg = true
			}
		}
		cr.sc.mu.Lock()
		closed := cr.sc.closed
		cr.sc.mu.Unlock()
		rn.rec.Emit(Ev{"ev": "return", "c": cr.sc.id, "panic": pan, "err": errs, "inreg": inreg, "closed": closed, "conns": len(server.Conns())})
		rn.gmu.Lock()
		delete(rn.g2c, goid())
		rn.gmu.Unlock()
		cr.sc.markReturned()
		close(cr.done)
	}()
}

func modelConns(s Scenario) []int {
	if s.ModelConns == nil {
		return []int{}
	}
	return s.ModelConns
}

func chunkSizes(st Step, encs [][]byte, total int) []int {
	if st.Cut > 0 && st.Cut < total {
		total = st.Cut
	}
	switch {
	case len(st.Chunks) > 0:
		out := []int{}
		left := total
		for _, c := range st.Chunks {
			if c <= 0 || left <= 0 {
				continue
			}
			if c > left {
				c = left
			}
			out = append(out, c)
			left -= c
		}
		if left > 0 {
			out = append(out, left)
		}
		return out
	case st.Chunking == "bytes":
		out := make([]int, total)
		for i := range out {
			out[i] = 1
		}
		return out
	case st.Chunking == "perreq":
		out := []int{}
		left := total
		for _, e := range encs {
			n := len(e)
			if n > left {
				n = left
			}
			if n > 0 {
				out = append(out, n)
			}
			left -= n
		}
		return out
	case st.Chunking == "split" && st.At > 0 && st.At < total:
		return []int{st.At, total - st.At}
	}
	if total == 0 {
		return []int{}
	}
	return []int{total}
}

// run executes one scenario; it reports false if a connection stalled
// (the process should then be restarted: a spinning goroutine cannot be killed).
func (rn *runner) run(s Scenario) bool {
	rn.rec.Begin(s.ID)
	n := s.NConns
	if n <= 0 {
		n = 1
	}
	conns := make([]*connRun, n)
	for i := range conns {
		conns[i] = &connRun{sc: newSconn(i, rn.rec), done: make(chan struct{}), sentAt: time.Now()}
		conns[i].sc.slow = s.SlowWrite
		conns[i].sc.closeFail = s.CloseFail
	}
	server, handler := rn.newServer(s, conns)
	rs, _ := handler.(*refStore)
	if s.Handler == "" {
		s.Handler = "rec"
	}
	rn.rec.Emit(Ev{"ev": "scenario", "requirepass": s.RequirePass != "", "pw": BS(symBytes[s.RequirePass]), "handler": s.Handler,
		"tracer": s.Tracer, "nconns": n, "authdouble": s.AuthDouble, "customexec": s.CustomExec, "model": s.Model, "modelconns": modelConns(s)})
	started := make([]bool, n)
	ok := true
	var okmu sync.Mutex
	fail := func() {
		okmu.Lock()
		ok = false
		okmu.Unlock()
	}
	doStep := func(st Step) {
		if st.C < 0 || st.C >= n {
			return
		}
		cr := conns[st.C]
		if cr.stalled {
			return
		}
		if !started[st.C] {
			started[st.C] = true
			rn.rec.Emit(Ev{"ev": "open", "c": st.C})
			rn.serve(server, conns[st.C])
			if !conns[st.C].sc.WaitQuiet(rn.timeout) {
				rn.stall(conns[st.C])
				fail()
			}
		}
		if cr.stalled {
			return
		}
		switch st.Op {
		case "send":
			var encs [][]byte
			var all []byte
			anns := []Ev{}
			ends := []int{}
			for _, r := range st.Reqs {
				e := r.encode()
				encs = append(encs, e)
				all = append(all, e...)
				ends = append(ends, len(all))
				anns = append(anns, r.annotate())
			}
			rn.rec.Emit(Ev{"ev": "reqs", "c": st.C, "reqs": anns, "bytes": len(all), "ends": ends})
			sizes := chunkSizes(st, encs, len(all))
			off := 0
			for _, k := range sizes {
				if cr.sc.isDone() {
					break
				}
				complete := 0
				for _, e := range ends {
					if e <= off+k {
						complete++
					}
				}
				cr.sentAt = time.Now()
				cr.sc.Deliver(all[off:off+k], Ev{"upto": off + k, "complete": complete, "of": len(ends)})
				off += k
				if !cr.sc.WaitQuiet(rn.timeout) {
					rn.stall(cr)
					fail()
					break
				}
				if rs != nil && s.Model && !s.Concurrent && len(s.ModelConns) == 0 {
					rn.rec.Emit(Ev{"ev": "store", "c": st.C, "dbs": rs.dump()})
				}
			}
		case "scaniter":
			// adaptive: a full cursor iteration.  Reqs[0] is a SCAN request whose first argument is the cursor (0); it is
			// re-sent with the cursor of the previous reply until the server returns cursor 0 or the bound is reached
			// ("scanstuck": the iteration the client was promised never ends).
			req := st.Reqs[0]
			bound := st.At
			if bound <= 0 {
				bound = 40
			}
			for it := 0; ; it++ {
				if cr.sc.isDone() {
					break
				}
				if it >= bound {
					rn.rec.Emit(Ev{"ev": "scanstuck", "c": st.C, "calls": it})
					break
				}
				e := req.encode()
				before := len(cr.sc.Written())
				rn.rec.Emit(Ev{"ev": "reqs", "c": st.C, "reqs": []Ev{req.annotate()}, "bytes": len(e), "ends": []int{len(e)}})
				cr.sentAt = time.Now()
				cr.sc.Deliver(e, Ev{"upto": len(e), "complete": 1, "of": 1})
				if !cr.sc.WaitQuiet(rn.timeout) {
					rn.stall(cr)
					fail()
					break
				}
				p := proto.NewParserWithBytes(cr.sc.Written()[before:])
				m, err := p.Next()
				if err != nil || m == nil {
					break
				}
				v := Project(m)
				if v.T != "arr" || len(v.E) != 2 || v.E[0].T != "bulk" {
					break // not a SCAN reply (an error): the specification judges it
				}
				cur, ok := parseCanonInt(v.E[0].P)
				if !ok || cur == 0 {
					break
				}
				args := append([]Tok{}, req.Args...)
				args[0] = Tok{K: "int", N: cur}
				req.Args = args
			}
		case "register":
			// the application registers an executor while connections are open (and idle: no request is in flight)
			tag := st.Tag
			if tag == "" {
				tag = "MyCmd"
			}
			server.RegisterExexutor(st.Name, rn.customExec(tag))
			rn.rec.Emit(Ev{"ev": "register", "c": st.C, "name": strings.ToUpper(st.Name), "tag": tag})
		case "sleep":
			// a pause of At ms; the reference store's clock advances by exactly that much (its expiry is virtual-time,
			// like the model's), the example store sees real time
			time.Sleep(time.Duration(st.At) * time.Millisecond)
			if rs != nil {
				rs.advance(st.At)
			}
			rn.rec.Emit(Ev{"ev": "sleep", "c": st.C, "ms": st.At})
			if rs != nil && s.Model && !s.Concurrent && len(s.ModelConns) == 0 {
				rn.rec.Emit(Ev{"ev": "store", "c": st.C, "dbs": rs.dump()})
			}
		case "halfclose":
			cr.sc.HalfClose()
			if !cr.sc.WaitQuiet(rn.timeout) {
				rn.stall(cr)
				fail()
			}
		case "fullclose":
			cr.sc.PeerClose()
			if !cr.sc.WaitQuiet(rn.timeout) {
				rn.stall(cr)
				fail()
			}
		case "stop":
			// the application stops the server while connections are open (and idle): every one of them is closed by the
			// server and its loop returns
			rn.rec.Emit(Ev{"ev": "stop", "c": st.C})
			if err := server.Stop(); err != nil {
				rn.rec.Emit(Ev{"ev": "note", "c": st.C, "stop_error": err.Error()})
			}
			for i, other := range conns {
				if started[i] && !other.stalled && !other.sc.WaitQuiet(rn.timeout) {
					rn.stall(other)
					fail()
				}
			}
		case "start":
			// ... and starts it again (connections opened from here on belong to the new run)
			errs := ""
			if err := server.Start(); err != nil {
				errs = err.Error()
			}
			rn.rec.Emit(Ev{"ev": "note", "c": st.C, "start_error": errs})
		case "wfail":
			cr.sc.mu.Lock()
			cr.sc.wfailAt = st.WFailAt
			cr.sc.mu.Unlock()
			rn.rec.Emit(Ev{"ev": "wfail", "c": st.C, "at": st.WFailAt})
		}
	}
	if s.Concurrent {
		var wg sync.WaitGroup
		for c := 0; c < n; c++ {
			wg.Add(1)
			go func(c int) {
				defer wg.Done()
				for _, st := range s.Steps {
					if st.C == c {
						doStep(st)
					}
				}
			}(c)
		}
		wg.Wait()
	} else {
		for _, st := range s.Steps {
			doStep(st)
		}
	}
	// wind down: end every stream that is still open, wait for the loops to return
	for i, cr := range conns {
		if !started[i] || cr.stalled {
			continue
		}
		if !cr.sc.isDone() {
			cr.sc.HalfClose()
		}
		select {
		case <-cr.done:
		case <-time.After(rn.timeout):
			rn.stall(cr)
			ok = false
		}
	}
	server.Stop()
	rn.rec.End()
	return ok
}

func (c *sconn) isDone() bool {
	c.mu.Lock()
	defer c.mu.Unlock()
	return c.returned
}

func (rn *runner) stall(cr *connRun) {
	cr.stalled = true
	buf := make([]byte, 1<<16)
	n := runtime.Stack(buf, true)
	dump := string(buf[:n])
	// keep the goroutine that serves this connection (it mentions VerifServeConn)
	keep := ""
	for _, g := range strings.Split(dump, "\n\n") {
		if strings.Contains(g, "VerifServeConn") {
			keep = g
			if strings.Contains(g, "[running]") || strings.Contains(g, "[runnable]") {
				break
			}
		}
	}
	if len(keep) > 1500 {
		keep = keep[:1500]
	}
	running := strings.Contains(keep, "[running]") || strings.Contains(keep, "[runnable]")
	rn.rec.Emit(Ev{"ev": "stall", "c": cr.sc.id, "running": running, "stack": keep})
}

func cmdConn(args []string) {
	fs := flag.NewFlagSet("conn", flag.ExitOnError)
	scen := fs.String("scenarios", "", "scenario file (JSON lines)")
	out := fs.String("out", "", "trace file")
	from := fs.Int("from", 0, "skip this many scenarios (restart after a stall)")
	appendOut := fs.Bool("append", false, "append to the trace file")
	timeoutMs := fs.Int("timeout-ms", 4000, "watchdog per wait")
	fs.Parse(args)
	var rec *Recorder
	var err error
	if *appendOut {
		f, e := os.OpenFile(*out, os.O_APPEND|os.O_WRONLY|os.O_CREATE, 0o644)
		must(e)
		rec = &Recorder{f: f, w: bufio.NewWriterSize(f, 1<<20)}
	} else {
		rec, err = NewRecorder(*out)
		must(err)
	}
	rn := &runner{rec: rec, timeout: time.Duration(*timeoutMs) * time.Millisecond, g2c: map[int64]int{}}
	f, err := os.Open(*scen)
	must(err)
	rd := bufio.NewReaderSize(f, 1<<22)
	idx := 0
	total := 0
	for {
		line, err := rd.ReadBytes('\n')
		if len(bytes.TrimSpace(line)) > 0 {
			idx++
			if idx > *from {
				var s Scenario
				must(json.Unmarshal(line, &s))
				stalled := false
				for k, e := range expand(s) {
					// scenario ids: input line number * 10000 + expansion index
					e.ID = idx*10000 + k
					total++
					if !rn.run(e) {
						stalled = true
						break // a spinning goroutine cannot be killed: restart the process
					}
				}
				if stalled {
					must(rec.Close())
					fmt.Printf("conn: stalled at scenario index %d\n", idx)
					os.Exit(3) // restart me with --from idx --append
				}
			}
		}
		if err != nil {
			break
		}
	}
	must(rec.Close())
	fmt.Printf("conn: %d scenario lines, %d runs\n", idx, total)
}

// expand turns chunking "allsplits" (single send step) into one scenario per 2-way split point.
func expand(s Scenario) []Scenario {
	for si, st := range s.Steps {
		if st.Op == "send" && st.CutAll {
			n := 0
			for _, r := range st.Reqs {
				n += len(r.encode())
			}
			var out []Scenario
			for cut := 1; cut <= n; cut++ {
				c := s
				c.Steps = append([]Step{}, s.Steps...)
				c.Steps[si].CutAll = false
				c.Steps[si].Cut = cut
				out = append(out, c)
			}
			return out
		}
		if st.Op == "send" && st.Chunking == "nextsplits" {
			// one chunk = the first i requests completely plus 1 byte / half / all but one byte of request i+1; the rest follows
			ends := []int{}
			n := 0
			for _, r := range st.Reqs {
				n += len(r.encode())
				ends = append(ends, n)
			}
			var out []Scenario
			for i := 0; i+1 < len(ends); i++ {
				next := ends[i+1] - ends[i]
				seen := map[int]bool{}
				for _, k := range []int{1, next / 2, next - 1} {
					if k < 1 || k >= next || seen[k] {
						continue
					}
					seen[k] = true
					c := s
					c.Steps = append([]Step{}, s.Steps...)
					c.Steps[si].Chunking = "split"
					c.Steps[si].At = ends[i] + k
					out = append(out, c)
				}
			}
			if len(out) == 0 {
				c := s
				c.Steps = append([]Step{}, s.Steps...)
				c.Steps[si].Chunking = "whole"
				out = append(out, c)
			}
			return out
		}
		if st.Op == "send" && st.Chunking == "allsplits" {
			n := 0
			for _, r := range st.Reqs {
				n += len(r.encode())
			}
			if st.Cut > 0 && st.Cut < n {
				n = st.Cut
			}
			var out []Scenario
			for at := 1; at < n; at++ {
				c := s
				c.Steps = append([]Step{}, s.Steps...)
				c.Steps[si].Chunking = "split"
				c.Steps[si].At = at
				out = append(out, c)
			}
			if len(out) == 0 {
				c := s
				c.Steps = append([]Step{}, s.Steps...)
				c.Steps[si].Chunking = "whole"
				out = append(out, c)
			}
			return out
		}
	}
	return []Scenario{s}
}

func init() { commands["conn"] = cmdConn }
