package main

import (
	"fmt"
	"os"
)

func must(err error) {
	if err != nil {
		fmt.Fprintln(os.Stderr, "harness error:", err)
		os.Exit(2)
	}
}

var commands = map[string]func([]string){}

func main() {
	if len(os.Args) < 2 {
		fmt.Fprintln(os.Stderr, "usage: vharness <command> [flags]")
		os.Exit(2)
	}
	f, ok := commands[os.Args[1]]
	if !ok {
		fmt.Fprintln(os.Stderr, "unknown command", os.Args[1])
		os.Exit(2)
	}
	f(os.Args[2:])
}

func init() {
	commands["c01"] = cmdC01
}
