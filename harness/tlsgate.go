package main

import (
	"bufio"
	"bytes"
	"crypto/ecdsa"
	"crypto/elliptic"
	"crypto/rand"
	"crypto/tls"
	"crypto/x509"
	"crypto/x509/pkix"
	"encoding/json"
	"encoding/pem"
	"flag"
	"fmt"
	"math/big"
	"net"
	"os"
	"path/filepath"
	"strings"
	"sync"
	"time"

	"github.com/cybergarage/go-redis/redis"
	"github.com/cybergarage/go-redis/redis/auth"
)

// tlsgate: C09 scenarios on a real server with a plain and a TLS port.  The
// CA, an intermediate and all leaves are minted here (no files).

const ruleName = "client-ok"

type pki struct {
	rootPEM    []byte
	serverPEM  []byte
	keyPEM     []byte
	rootPool   *x509.CertPool
	serverCert tls.Certificate
	clients    map[string][]tls.Certificate // cred -> certificates presented
}

func mint(tmpl *x509.Certificate, parent *x509.Certificate, parentKey *ecdsa.PrivateKey) (*x509.Certificate, *ecdsa.PrivateKey, []byte) {
	key, err := ecdsa.GenerateKey(elliptic.P256(), rand.Reader)
	must(err)
	if parent == nil {
		parent, parentKey = tmpl, key
	}
	der, err := x509.CreateCertificate(rand.Reader, tmpl, parent, &key.PublicKey, parentKey)
	must(err)
	cert, err := x509.ParseCertificate(der)
	must(err)
	return cert, key, der
}

var serial int64 = 100

func tmpl(cn string, ca bool, notAfter time.Time) *x509.Certificate {
	serial++
	t := &x509.Certificate{SerialNumber: big.NewInt(serial), Subject: pkix.Name{CommonName: cn}, NotBefore: time.Now().Add(-48 * time.Hour), NotAfter: notAfter,
		KeyUsage: x509.KeyUsageDigitalSignature, ExtKeyUsage: []x509.ExtKeyUsage{x509.ExtKeyUsageClientAuth, x509.ExtKeyUsageServerAuth}, BasicConstraintsValid: true}
	if ca {
		t.IsCA = true
		t.KeyUsage |= x509.KeyUsageCertSign
	}
	return t
}

// hostRootsFile is the temporary file that stands for the host's trust store (removed by the commands that create a PKI).
var hostRootsFile string

func newPKI() *pki {
	far := time.Now().Add(24 * 365 * time.Hour)
	root, rootKey, rootDer := mint(tmpl("verif-root", true, far), nil, nil)
	foreign, foreignKey, foreignDer := mint(tmpl("foreign-root", true, far), nil, nil)
	// the foreign root is what this host trusts for the public internet (the system trust store of this process): a server
	// that takes its client CAs from anywhere but the configured CA file accepts the "foreignca" client
	// (written to the working directory, which is the check's scratch directory)
	if f, err := os.CreateTemp(".", "verif-host-roots-*.pem"); err == nil {
		f.Write(pem.EncodeToMemory(&pem.Block{Type: "CERTIFICATE", Bytes: foreignDer}))
		f.Close()
		abs, _ := filepath.Abs(f.Name())
		os.Setenv("SSL_CERT_FILE", abs)
		os.Setenv("SSL_CERT_DIR", abs+".d")
		hostRootsFile = abs
	}
	p := &pki{rootPool: x509.NewCertPool(), clients: map[string][]tls.Certificate{}}
	p.rootPool.AddCert(root)
	st := tmpl("localhost", false, far)
	st.DNSNames = []string{"localhost"}
	st.IPAddresses = []net.IP{net.ParseIP("127.0.0.1")}
	_, sKey, sDer := mint(st, root, rootKey)
	p.serverCert = tls.Certificate{Certificate: [][]byte{sDer}, PrivateKey: sKey}
	p.rootPEM = pem.EncodeToMemory(&pem.Block{Type: "CERTIFICATE", Bytes: rootDer})
	p.serverPEM = pem.EncodeToMemory(&pem.Block{Type: "CERTIFICATE", Bytes: sDer})
	kb, err := x509.MarshalECPrivateKey(sKey)
	must(err)
	p.keyPEM = pem.EncodeToMemory(&pem.Block{Type: "EC PRIVATE KEY", Bytes: kb})
	leaf := func(cn string, notAfter time.Time, parent *x509.Certificate, pk *ecdsa.PrivateKey) tls.Certificate {
		_, k, der := mint(tmpl(cn, false, notAfter), parent, pk)
		return tls.Certificate{Certificate: [][]byte{der}, PrivateKey: k}
	}
	p.clients["ok"] = []tls.Certificate{leaf(ruleName, far, root, rootKey)}
	p.clients["wrongname"] = []tls.Certificate{leaf("someone-else", far, root, rootKey)}
	p.clients["expired"] = []tls.Certificate{leaf(ruleName, time.Now().Add(-24*time.Hour), root, rootKey)}
	p.clients["foreignca"] = []tls.Certificate{leaf(ruleName, far, foreign, foreignKey)}
	_, ssKey, ssDer := mint(tmpl(ruleName, false, far), nil, nil)
	p.clients["selfsigned"] = []tls.Certificate{{Certificate: [][]byte{ssDer}, PrivateKey: ssKey}}
	inter, interKey, interDer := mint(tmpl(ruleName, true, far), root, rootKey) // the intermediate carries the rule's name
	_, mKey, mDer := mint(tmpl("mallory", false, far), inter, interKey)
	p.clients["intermediate"] = []tls.Certificate{{Certificate: [][]byte{mDer, interDer}, PrivateKey: mKey}}
	// near misses of the common name: another letter case, the name as a proper prefix / suffix of the certificate's name,
	// the name only as a DNS subject-alternative name, and a certificate that is not valid yet
	p.clients["namecase"] = []tls.Certificate{leaf(strings.ToUpper(ruleName), far, root, rootKey)}
	p.clients["nameprefix"] = []tls.Certificate{leaf(ruleName+".evil.example", far, root, rootKey)}
	p.clients["namesuffix"] = []tls.Certificate{leaf("not-"+ruleName, far, root, rootKey)}
	sanT := tmpl("someone-else", false, far)
	sanT.DNSNames = []string{ruleName}
	_, sanKey, sanDer := mint(sanT, root, rootKey)
	p.clients["namesan"] = []tls.Certificate{{Certificate: [][]byte{sanDer}, PrivateKey: sanKey}}
	nyT := tmpl(ruleName, false, far)
	nyT.NotBefore = time.Now().Add(24 * time.Hour)
	_, nyKey, nyDer := mint(nyT, root, rootKey)
	p.clients["notyet"] = []tls.Certificate{{Certificate: [][]byte{nyDer}, PrivateKey: nyKey}}
	p.clients["nocert"] = nil
	return p
}

// countHandler counts handler calls per remote address.
type countHandler struct {
	redis.UserCommandHandler
	mu    sync.Mutex
	calls map[string]int
}

func (h *countHandler) note(conn *redis.Conn) {
	h.mu.Lock()
	h.calls[conn.RemoteAddr().String()]++
	h.mu.Unlock()
}
func (h *countHandler) Set(conn *redis.Conn, key string, val string, opt redis.SetOption) (*redis.Message, error) {
	h.note(conn)
	return h.UserCommandHandler.Set(conn, key, val, opt)
}
func (h *countHandler) Get(conn *redis.Conn, key string) (*redis.Message, error) {
	h.note(conn)
	return h.UserCommandHandler.Get(conn, key)
}
func (h *countHandler) count(addr string) int {
	h.mu.Lock()
	defer h.mu.Unlock()
	return h.calls[addr]
}

// holdConn lets the first write (ClientHello) through and then either closes (abort) or never delivers the server's answer (stall).
type holdConn struct {
	net.Conn
	mode   string
	writes int
	hold   chan struct{}
}

func (c *holdConn) Write(b []byte) (int, error) {
	n, err := c.Conn.Write(b)
	c.writes++
	if c.mode == "abort" && c.writes == 1 {
		c.Conn.Close()
	}
	return n, err
}
func (c *holdConn) Read(b []byte) (int, error) {
	if c.mode == "stall" {
		<-c.hold
		return 0, net.ErrClosed
	}
	return c.Conn.Read(b)
}

const tlsPassword = "s3cr3t-Pass"

func talk(conn net.Conn, pass bool) (served bool, disconnected bool) {
	conn.SetDeadline(time.Now().Add(800 * time.Millisecond))
	rd := bufio.NewReader(conn)
	expect := func(req string, want string) bool {
		if _, err := conn.Write([]byte(req)); err != nil {
			disconnected = true
			return false
		}
		line, err := rd.ReadString('\n')
		if err != nil {
			if ne, ok := err.(net.Error); !ok || !ne.Timeout() {
				disconnected = true
			}
			return false
		}
		return line == want
	}
	if pass && !expect(string(request("AUTH", tlsPassword)), "+OK\r\n") {
		return false, disconnected
	}
	if !expect(string(request("PING")), "+PONG\r\n") {
		return false, disconnected
	}
	if !expect(string(request("SET", "kt", "v")), "+OK\r\n") {
		return false, disconnected
	}
	return true, false
}

type TLSScenario struct {
	Rule  bool   `json:"rule"`
	Pass  bool   `json:"pass"`
	Cred  string `json:"cred"`
	Fault string `json:"fault"`
	Pos   string `json:"pos"`
	// Custom: the application supplies its own tls.Config (SetTLSConfig) instead of certificate files: "anycert" demands a
	// client certificate without verifying it, "request" asks for one and accepts none, "verify" is the built-in policy
	Custom string `json:"custom"`
}

type tlsRun struct {
	rec      *Recorder
	p        *pki
	h        *countHandler
	plain    int
	tlsp     int
	pass     bool
	stallers []*holdConn
	garbage  []byte
	sessions map[string]tls.ClientSessionCache // per credential: a second connection resumes the first one's TLS session
}

func (tr *tlsRun) clientCfg(cred string) *tls.Config {
	if tr.sessions == nil {
		tr.sessions = map[string]tls.ClientSessionCache{}
	}
	if tr.sessions[cred] == nil {
		tr.sessions[cred] = tls.NewLRUClientSessionCache(4)
	}
	return &tls.Config{RootCAs: tr.p.rootPool, ServerName: "localhost", Certificates: tr.p.clients[cred], MinVersion: tls.VersionTLS12,
		ClientSessionCache: tr.sessions[cred]}
}

// client runs one client against the TLS port and records what happened.
func (tr *tlsRun) client(cred, fault string) net.Conn {
	ev := Ev{"ev": "tlsclient", "cred": cred, "fault": fault, "hs": false, "calls": 0, "served": false, "disconnected": false, "preauth_calls": 0, "resumed": false}
	raw, err := net.DialTimeout("tcp", fmt.Sprintf("127.0.0.1:%d", tr.tlsp), 500*time.Millisecond)
	if err != nil {
		ev["disconnected"] = true
		ev["dialerr"] = err.Error()
		tr.rec.Emit(ev)
		return nil
	}
	local := raw.LocalAddr().String()
	var keep net.Conn
	switch {
	case fault == "flood":
		// hundreds of clients that connect to the TLS port and say nothing, all at once, then go away
		conns := []net.Conn{raw}
		for i := 0; i < 300; i++ {
			if c, err := net.DialTimeout("tcp", fmt.Sprintf("127.0.0.1:%d", tr.tlsp), 500*time.Millisecond); err == nil {
				conns = append(conns, c)
			}
		}
		time.Sleep(300 * time.Millisecond)
		for _, c := range conns {
			c.Close()
		}
		time.Sleep(50 * time.Millisecond)
		ev["disconnected"] = true
	case cred == "plain":
		payload := request("PING")
		if fault == "garbage" || (fault == "stall" && tr.garbage != nil) {
			payload = tr.garbage
		}
		raw.Write(payload)
		raw.SetDeadline(time.Now().Add(600 * time.Millisecond))
		buf := make([]byte, 256)
		for {
			n, err := raw.Read(buf)
			if n > 0 && bytes.Contains(buf[:n], []byte("+PONG")) {
				ev["served"] = true
			}
			if err != nil {
				if ne, ok := err.(net.Error); !ok || !ne.Timeout() {
					ev["disconnected"] = true
				}
				break
			}
		}
		raw.Close()
	case fault == "abort" || fault == "stall":
		hc := &holdConn{Conn: raw, mode: fault, hold: make(chan struct{})}
		tc := tls.Client(hc, tr.clientCfg(cred))
		done := make(chan error, 1)
		go func() { done <- tc.Handshake() }()
		if fault == "abort" {
			<-done
			ev["disconnected"] = true
		} else {
			time.Sleep(20 * time.Millisecond) // ClientHello is out; the server now waits inside its handshake
			tr.stallers = append(tr.stallers, hc)
		}
	default:
		tc := tls.Client(raw, tr.clientCfg(cred))
		raw.SetDeadline(time.Now().Add(1500 * time.Millisecond))
		if err := tc.Handshake(); err == nil {
			ev["hs"] = true
			ev["resumed"] = tc.ConnectionState().DidResume
			raw.SetDeadline(time.Time{})
			if tr.pass {
				// a command before AUTH: the TLS connection is not authorized by its certificate alone (C08)
				tc.SetDeadline(time.Now().Add(800 * time.Millisecond))
				tc.Write(request("GET", "preauth-key"))
				bufio.NewReader(tc).ReadString('\n')
				time.Sleep(2 * time.Millisecond)
				ev["preauth_calls"] = tr.h.count(local)
			}
			served, disc := talk(tc, tr.pass)
			ev["served"], ev["disconnected"] = served, disc
			if served {
				keep = tc
			} else {
				tc.Close()
			}
		} else {
			ev["disconnected"] = true
			raw.Close()
		}
	}
	time.Sleep(5 * time.Millisecond)
	ev["calls"] = tr.h.count(local)
	tr.rec.Emit(ev)
	return keep
}

func (tr *tlsRun) probe(where string) {
	tlsok, plainok := false, false
	if raw, err := net.DialTimeout("tcp", fmt.Sprintf("127.0.0.1:%d", tr.tlsp), 500*time.Millisecond); err == nil {
		tc := tls.Client(raw, tr.clientCfg("ok"))
		raw.SetDeadline(time.Now().Add(1500 * time.Millisecond))
		if tc.Handshake() == nil {
			raw.SetDeadline(time.Time{})
			tlsok, _ = talk(tc, tr.pass)
		}
		tc.Close()
	}
	if raw, err := net.DialTimeout("tcp", fmt.Sprintf("127.0.0.1:%d", tr.plain), 500*time.Millisecond); err == nil {
		// the plain listener accepts and answers: with a certificate rule AND a password configured a plain
		// client cannot authenticate at all (the rule applies to every connection), so any reply frame counts
		raw.SetDeadline(time.Now().Add(800 * time.Millisecond))
		if tr.pass {
			raw.Write(request("AUTH", tlsPassword))
		}
		raw.Write(request("PING"))
		line, err := bufio.NewReader(raw).ReadString('\n')
		plainok = err == nil && len(line) > 2 && (line[0] == '+' || line[0] == '-')
		raw.Close()
	}
	tr.rec.Emit(Ev{"ev": "probe", "tlsok": tlsok, "plainok": plainok, "where": where})
}

// clientHello captures the first flight a TLS client writes.
func clientHello() []byte {
	a, b := net.Pipe()
	defer a.Close()
	defer b.Close()
	go tls.Client(a, &tls.Config{ServerName: "localhost", InsecureSkipVerify: true}).Handshake()
	b.SetReadDeadline(time.Now().Add(time.Second))
	buf := make([]byte, 4096)
	n, _ := b.Read(buf)
	return buf[:n]
}

func garbageVariants() [][]byte {
	hello := clientHello()
	return [][]byte{
		[]byte("\x16\x03\x01\x00\x05hello\xff\xfe\x00\x01garbage"),
		append([]byte("\x16\x03\x01\xff\xff"), bytes.Repeat([]byte{0x41}, 40)...), // oversized record header
		append(append([]byte{}, hello...), []byte("\xde\xad\xbe\xef garbage after a valid ClientHello \x00\x00")...),
		[]byte("GET / HTTP/1.0\r\n\r\n"),
		[]byte("\x80\x2e\x01\x00\x02\x00\x15\x00\x00\x00\x10"),                 // SSLv2-looking hello
		[]byte("\x15\x03\x03\x00\x02\x02\x28"),                                 // an alert record
		[]byte("\x16\x03\x03\x00\x00\x16\x03\x03\x00\x00\x16\x03\x03\x00\x00"), // empty handshake records
		[]byte("\x17\x03\x03\x00\x01\x00"),                                     // application data before any handshake
	}
}

func runTLS(rec *Recorder, p *pki, id int, s TLSScenario) {
	rec.Begin(id)
	server := redis.NewServer()
	h := &countHandler{UserCommandHandler: newRefStore(), calls: map[string]int{}}
	server.SetCommandHandler(h)
	tr := &tlsRun{rec: rec, p: p, h: h, plain: freePort(), tlsp: freePort(), pass: s.Pass}
	server.SetPort(tr.plain)
	server.SetTLSPort(tr.tlsp)
	// the server builds its own tls.Config from the certificate material (NewTLSConfigFrom), as in production
	server.ServerCert, server.ServerKey, server.CACerts = p.serverPEM, p.keyPEM, p.rootPEM
	if s.Custom != "" {
		mode := map[string]tls.ClientAuthType{"anycert": tls.RequireAnyClientCert, "request": tls.RequestClientCert, "verify": tls.RequireAndVerifyClientCert}[s.Custom]
		server.SetTLSConfig(&tls.Config{Certificates: []tls.Certificate{p.serverCert}, ClientAuth: mode, ClientCAs: p.rootPool, MinVersion: tls.VersionTLS12})
	}
	if s.Rule {
		server.AddAuthenticator(auth.NewCertificateAuthenticatorWith(auth.WithCommonName(ruleName)))
	}
	if s.Pass {
		server.SetRequirePass(tlsPassword)
	}
	rec.Emit(Ev{"ev": "scenario", "rule": s.Rule, "pass": s.Pass, "cred": s.Cred, "fault": s.Fault, "pos": s.Pos, "custom": s.Custom})
	rec.mu.Lock()
	rec.w.Flush()
	rec.mu.Unlock()
	if err := server.Start(); err != nil {
		rec.Emit(Ev{"ev": "starterror", "err": err.Error()})
		rec.End()
		return
	}
	var witness net.Conn
	if s.Pos != "before" {
		witness = tr.client("ok", "none") // a well-behaved TLS client that stays connected
	}
	var bad net.Conn
	if s.Fault == "garbage" {
		// every kind of non-handshake the TLS port may receive
		for _, g := range garbageVariants() {
			tr.garbage = g
			tr.client(s.Cred, s.Fault)
		}
		// an incomplete record is indistinguishable from a slow client: it is a stall, not garbage
		tr.garbage = []byte{0x16}
		tr.client(s.Cred, "stall")
	} else {
		bad = tr.client(s.Cred, s.Fault)
		if s.Fault == "none" && len(p.clients[s.Cred]) > 0 {
			// the same client again: this time its TLS session is resumed (no certificate is sent), the verdict must be the same
			if again := tr.client(s.Cred, s.Fault); again != nil {
				again.Close()
			}
		}
	}
	tr.probe("after-client")
	if witness != nil { // the earlier client is still served
		served, _ := talk(witness, false)
		rec.Emit(Ev{"ev": "probe", "tlsok": served, "plainok": true, "where": "witness-still-served"})
		witness.Close()
	}
	if s.Pos == "between" {
		tr.probe("second")
	}
	if bad != nil {
		bad.Close()
	}
	for _, st := range tr.stallers {
		close(st.hold)
		st.Conn.Close()
	}
	server.Stop()
	rec.End()
}

func cmdTLS(args []string) {
	fs := flag.NewFlagSet("tlsgate", flag.ExitOnError)
	scen := fs.String("scenarios", "", "scenario file (JSON lines)")
	out := fs.String("out", "", "trace file")
	fs.Parse(args)
	rec, err := NewRecorder(*out)
	must(err)
	p := newPKI()
	f, err := os.Open(*scen)
	must(err)
	rd := bufio.NewReaderSize(f, 1<<20)
	idx := 0
	for {
		line, err := rd.ReadBytes('\n')
		if len(bytes.TrimSpace(line)) > 0 {
			idx++
			var s TLSScenario
			must(json.Unmarshal(line, &s))
			runTLS(rec, p, idx, s)
		}
		if err != nil {
			break
		}
	}
	must(rec.Close())
	fmt.Printf("tlsgate: %d scenarios\n", idx)
}

func init() { commands["tlsgate"] = cmdTLS }
