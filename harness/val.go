package main

import (
	"encoding/json"
	"errors"
	"fmt"

	"github.com/cybergarage/go-redis/redis"
	"github.com/cybergarage/go-redis/redis/proto"
)

// Val is the harness-side picture of a RESP value, in the JSON shape the
// specification uses: {"t":"str|err|int|bulk","p":[..]}, {"t":"null"},
// {"t":"arr","e":[..]}; {"t":"absent"} for an element slot left nil.
type Val struct {
	T string
	P []byte
	E []Val
	M string // for t = "error"/"panic": message
}

func (v Val) MarshalJSON() ([]byte, error) {
	switch v.T {
	case "str", "err", "int", "bulk":
		return json.Marshal(map[string]any{"t": v.T, "p": B(v.P)})
	case "arr":
		e := v.E
		if e == nil {
			e = []Val{}
		}
		return json.Marshal(map[string]any{"t": "arr", "e": e})
	case "error", "panic":
		return json.Marshal(map[string]any{"t": v.T, "msg": v.M})
	default:
		return json.Marshal(map[string]any{"t": v.T})
	}
}

func (v *Val) UnmarshalJSON(b []byte) error {
	var raw struct {
		T string            `json:"t"`
		P []int             `json:"p"`
		E []json.RawMessage `json:"e"`
		M string            `json:"msg"`
	}
	if err := json.Unmarshal(b, &raw); err != nil {
		return err
	}
	v.T = raw.T
	v.M = raw.M
	v.P = unB(raw.P)
	v.E = nil
	for _, r := range raw.E {
		var c Val
		if err := json.Unmarshal(r, &c); err != nil {
			return err
		}
		v.E = append(v.E, c)
	}
	return nil
}

// Project turns a parsed message into a Val using only the public API.
// Iterating an array with Next() consumes its cursor; callers project only
// messages they no longer execute.
func Project(m *proto.Message) Val {
	if m == nil {
		return Val{T: "absent"}
	}
	switch m.Type {
	case proto.StringMessage, proto.ErrorMessage, proto.IntegerMessage:
		b, _ := m.Bytes()
		t := map[proto.MessageType]string{proto.StringMessage: "str", proto.ErrorMessage: "err", proto.IntegerMessage: "int"}[m.Type]
		return Val{T: t, P: append([]byte{}, b...)}
	case proto.BulkMessage:
		if m.IsNil() {
			return Val{T: "null"}
		}
		b, _ := m.Bytes()
		return Val{T: "bulk", P: append([]byte{}, b...)}
	case proto.ArrayMessage:
		a, err := m.Array()
		if err != nil || a == nil {
			return Val{T: "absent"}
		}
		out := Val{T: "arr", E: []Val{}}
		n := a.Size()
		for i := 0; i < n; i++ {
			e, _ := a.Next()
			out.E = append(out.E, Project(e))
		}
		return out
	}
	return Val{T: fmt.Sprintf("unknown-type-%d", int(m.Type))}
}

// parseCanonInt parses an optional '-' and decimal digits without strconv.
func parseCanonInt(p []byte) (int, bool) {
	if len(p) == 0 {
		return 0, false
	}
	neg := false
	i := 0
	if p[0] == '-' {
		neg = true
		i = 1
	}
	if i >= len(p) {
		return 0, false
	}
	var n uint64
	for ; i < len(p); i++ {
		if p[i] < '0' || p[i] > '9' {
			return 0, false
		}
		n = n*10 + uint64(p[i]-'0')
	}
	if neg {
		return int(-int64(n)), true
	}
	return int(n), true
}

// fmtInt formats an int by repeated division (no strconv).
func fmtInt(v int) []byte {
	if v == 0 {
		return []byte("0")
	}
	neg := v < 0
	var u uint64
	if neg {
		u = uint64(-(int64(v) + 1)) + 1
	} else {
		u = uint64(v)
	}
	var d []byte
	for u > 0 {
		d = append([]byte{byte('0' + u%10)}, d...)
		u /= 10
	}
	if neg {
		d = append([]byte{'-'}, d...)
	}
	return d
}

// Build constructs the value with the public message constructors.
func Build(v Val) (*redis.Message, error) {
	switch v.T {
	case "str":
		if string(v.P) == "OK" {
			return redis.NewOKMessage(), nil
		}
		return redis.NewStringMessage(string(v.P)), nil
	case "err":
		return redis.NewErrorMessage(errors.New(string(v.P))), nil
	case "int":
		n, ok := parseCanonInt(v.P)
		if !ok {
			return nil, fmt.Errorf("not an int payload %q", v.P)
		}
		return redis.NewIntegerMessage(n), nil
	case "bulk":
		return redis.NewBulkMessage(string(v.P)), nil
	case "null":
		return redis.NewNilMessage(), nil
	case "arr":
		allBulk := len(v.E) > 0
		for _, e := range v.E {
			if e.T != "bulk" {
				allBulk = false
			}
		}
		if allBulk {
			strs := make([]string, len(v.E))
			for i, e := range v.E {
				strs[i] = string(e.P)
			}
			return redis.NewStringArrayMessage(strs), nil
		}
		m := redis.NewArrayMessage()
		for _, e := range v.E {
			c, err := Build(e)
			if err != nil {
				return nil, err
			}
			if err := m.Append(c); err != nil {
				return nil, err
			}
		}
		return m, nil
	}
	return nil, fmt.Errorf("cannot build %q", v.T)
}

// encVal is the harness's own canonical RESP2 encoder (test-data generation
// only; validity of what it produces is re-checked by the specification).
func encVal(v Val) []byte {
	var out []byte
	switch v.T {
	case "str":
		out = append(append(append(out, '+'), v.P...), '\r', '\n')
	case "err":
		out = append(append(append(out, '-'), v.P...), '\r', '\n')
	case "int":
		out = append(append(append(out, ':'), v.P...), '\r', '\n')
	case "bulk":
		out = append(out, '$')
		out = append(out, fmtInt(len(v.P))...)
		out = append(out, '\r', '\n')
		out = append(out, v.P...)
		out = append(out, '\r', '\n')
	case "null":
		out = append(out, "$-1\r\n"...)
	case "narr": // the RESP2 null array (only sent to the parser, never expected back: it is handed out as an empty array)
		out = append(out, "*-1\r\n"...)
	case "arr":
		out = append(out, '*')
		out = append(out, fmtInt(len(v.E))...)
		out = append(out, '\r', '\n')
		for _, e := range v.E {
			out = append(out, encVal(e)...)
		}
	}
	return out
}

// request encodes a command request (array of bulk strings).
func request(args ...string) []byte {
	v := Val{T: "arr"}
	for _, a := range args {
		v.E = append(v.E, Val{T: "bulk", P: []byte(a)})
	}
	return encVal(v)
}

// redisIntRaw builds an integer message with an arbitrary payload.
func redisIntRaw(p []byte) *redis.Message {
	return proto.NewMessageWithType(proto.IntegerMessage).SetBytes(p)
}
