------------------------------- MODULE RESP -------------------------------
(***************************************************************************)
(* RESP2 value algebra, canonical encoding and a STRICT decoder.           *)
(*                                                                         *)
(* Bytes are naturals 0..255, byte strings are sequences.  This module is  *)
(* purely functional: it is the reference every other module (Parser,      *)
(* Conn, the trace specifications) judges observed bytes against.          *)
(*                                                                         *)
(* Values:  [t |-> "str"|"err"|"int", p |-> bytes]   line types            *)
(*          [t |-> "bulk", p |-> bytes]   [t |-> "null"]                   *)
(*          [t |-> "arr", e |-> <<values>>]                                *)
(* An element slot the implementation left empty is reported by the        *)
(* harness as [t |-> "absent"]; it is not a value and never decodes.       *)
(***************************************************************************)
EXTENDS Integers, Sequences, FiniteSets

CR     == 13
LF     == 10
CRLF   == <<13, 10>>
PLUS   == 43
MINUS  == 45
COLON  == 58
DOLLAR == 36
STAR   == 42

Str(p)  == [t |-> "str", p |-> p]
Err(p)  == [t |-> "err", p |-> p]
IntV(p)  == [t |-> "int", p |-> p]
Bulk(p) == [t |-> "bulk", p |-> p]
Null    == [t |-> "null"]
Arr(e)  == [t |-> "arr", e |-> e]
NArr    == [t |-> "narr"]          \* the RESP2 null array *-1: decoded, never produced by this server's constructors

IsDigit(x) == x >= 48 /\ x <= 57

IsLineSafe(p) == \A k \in 1..Len(p) : p[k] # CR /\ p[k] # LF

\* decimal text of a natural number / canonical forms
RECURSIVE NatDigits(_)
NatDigits(n) == IF n < 10 THEN <<48 + n>> ELSE NatDigits(n \div 10) \o <<48 + (n % 10)>>

CanonNat(p) == /\ Len(p) >= 1
               /\ \A k \in 1..Len(p) : IsDigit(p[k])
               /\ (Len(p) > 1 => p[1] # 48)

CanonInt(p) == \/ CanonNat(p)
               \/ /\ Len(p) >= 2
                  /\ p[1] = MINUS
                  /\ CanonNat(Tail(p))
                  /\ Tail(p) # <<48>>

RECURSIVE ParseNatAcc(_, _, _)
ParseNatAcc(p, k, acc) == IF k > Len(p) THEN acc ELSE ParseNatAcc(p, k + 1, acc * 10 + (p[k] - 48))
\* only for Len(p) <= 9 (TLC integers are 32 bit)
ParseNat(p) == ParseNatAcc(p, 1, 0)

RECURSIVE Concat(_)
Concat(ss) == IF ss = <<>> THEN <<>> ELSE Head(ss) \o Concat(Tail(ss))

\* a value every part of which can be put on the wire
RECURSIVE WellFormed(_)
WellFormed(v) ==
  CASE v.t \in {"str", "err"} -> IsLineSafe(v.p)
    [] v.t = "int"            -> CanonInt(v.p)
    [] v.t = "bulk"           -> TRUE
    [] v.t = "null"           -> TRUE
    [] v.t = "arr"            -> \A k \in 1..Len(v.e) : WellFormed(v.e[k])
    [] OTHER                  -> FALSE

RECURSIVE Enc(_)
Enc(v) ==
  CASE v.t = "str"  -> <<PLUS>> \o v.p \o CRLF
    [] v.t = "err"  -> <<MINUS>> \o v.p \o CRLF
    [] v.t = "int"  -> <<COLON>> \o v.p \o CRLF
    [] v.t = "bulk" -> <<DOLLAR>> \o NatDigits(Len(v.p)) \o CRLF \o v.p \o CRLF
    [] v.t = "null" -> <<DOLLAR, MINUS, 49>> \o CRLF
    [] v.t = "narr" -> <<STAR, MINUS, 49>> \o CRLF
    [] v.t = "arr"  -> <<STAR>> \o NatDigits(Len(v.e)) \o CRLF
                         \o Concat([k \in 1..Len(v.e) |-> Enc(v.e[k])])

---------------------------------------------------------------------------
(* Strict decoder.  Dec(b, i) decodes one value starting at index i.       *)
DOk(v, n)   == [ok |-> TRUE, v |-> v, next |-> n]
DFail(w, i) == [ok |-> FALSE, why |-> w, at |-> i]   \* why: "trunc" | "bad" | "huge"

RECURSIVE ScanLine(_, _)
ScanLine(b, i) == IF i > Len(b) THEN i
                  \* (64 bytes at a time where possible: the recursion stays shallow on lines of tens of thousands of bytes)
                  ELSE IF i + 63 <= Len(b) /\ \A j \in i..(i + 63) : b[j] # CR /\ b[j] # LF THEN ScanLine(b, i + 64)
                  ELSE IF b[i] = CR \/ b[i] = LF THEN i ELSE ScanLine(b, i + 1)

\* payload starting at i, terminated by CRLF; no bare CR or LF inside
DecLine(b, i) ==
  LET j == ScanLine(b, i) IN
  IF j > Len(b) THEN DFail("trunc", j)
  ELSE IF b[j] = LF THEN DFail("bad", j)
  ELSE IF j + 1 > Len(b) THEN DFail("trunc", j + 1)
  ELSE IF b[j + 1] # LF THEN DFail("bad", j + 1)
  ELSE DOk(SubSeq(b, i, j - 1), j + 2)

RECURSIVE Dec(_, _)
RECURSIVE DecElems(_, _, _, _)

Dec(b, i) ==
  IF i > Len(b) THEN DFail("trunc", i)
  ELSE LET ty == b[i] IN
    IF ty \in {PLUS, MINUS, COLON} THEN
      LET r == DecLine(b, i + 1) IN
      IF ~r.ok THEN r
      ELSE IF ty = COLON /\ ~CanonInt(r.v) THEN DFail("bad", i + 1)
      ELSE DOk([t |-> IF ty = PLUS THEN "str" ELSE IF ty = MINUS THEN "err" ELSE "int",
               p |-> r.v], r.next)
    ELSE IF ty = DOLLAR THEN
      LET r == DecLine(b, i + 1) IN
      IF ~r.ok THEN r
      ELSE IF r.v = <<MINUS, 49>> THEN DOk(Null, r.next)
      ELSE IF ~CanonNat(r.v) THEN DFail("bad", i + 1)
      ELSE IF Len(r.v) > 9 THEN DFail("huge", i + 1)
      ELSE LET n == ParseNat(r.v)
               e == r.next + n IN          \* index of the closing CR
           IF e + 1 > Len(b) THEN DFail("trunc", Len(b) + 1)
           ELSE IF b[e] # CR \/ b[e + 1] # LF THEN DFail("bad", e)
           ELSE DOk(Bulk(SubSeq(b, r.next, e - 1)), e + 2)
    ELSE IF ty = STAR THEN
      LET r == DecLine(b, i + 1) IN
      IF ~r.ok THEN r
      ELSE IF r.v = <<MINUS, 49>> THEN DOk(NArr, r.next)
      ELSE IF ~CanonNat(r.v) THEN DFail("bad", i + 1)
      ELSE IF Len(r.v) > 9 THEN DFail("huge", i + 1)
      ELSE DecElems(b, r.next, ParseNat(r.v), <<>>)
    ELSE DFail("bad", i)

DecElems(b, i, n, acc) ==
  IF n = 0 THEN DOk(Arr(acc), i)
  ELSE LET r == Dec(b, i) IN
       IF ~r.ok THEN r ELSE DecElems(b, r.next, n - 1, Append(acc, r.v))

\* all values of a stream, and how it ends: "complete" | "trunc" | "bad" | "huge"
RECURSIVE DecStreamR(_, _, _)
DecStreamR(b, i, acc) ==
  IF i > Len(b) THEN [vals |-> acc, st |-> "complete", at |-> i, from |-> i]
  ELSE LET r == Dec(b, i) IN
       IF r.ok THEN DecStreamR(b, r.next, Append(acc, r.v))
       ELSE [vals |-> acc, st |-> r.why, at |-> r.at, from |-> i]     \* from: where the value that did not decode starts
DecStream(b) == DecStreamR(b, 1, <<>>)

\* named leniency of the implementation: the parser hands out a null array as an empty array
RECURSIVE Lenient(_)
Lenient(v) == IF v.t = "narr" THEN Arr(<<>>)
              ELSE IF v.t = "arr" THEN Arr([k \in 1..Len(v.e) |-> Lenient(v.e[k])]) ELSE v
LenientSeq(s) == [k \in 1..Len(s) |-> Lenient(s[k])]

OneFrame(b) == LET r == Dec(b, 1) IN r.ok /\ r.next = Len(b) + 1
Frames(b)   == DecStream(b).st = "complete"

\* Does the value contain an element slot that was never filled?
RECURSIVE HasAbsent(_)
HasAbsent(v) == \/ v.t = "absent"
                \/ (v.t = "arr" /\ \E k \in 1..Len(v.e) : HasAbsent(v.e[k]))

\* a command request: non-empty array of (non-null) bulk strings
IsRequest(v) == /\ v.t = "arr" /\ Len(v.e) >= 1
                /\ \A k \in 1..Len(v.e) : v.e[k].t = "bulk"
=============================================================================
