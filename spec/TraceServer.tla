---------------------------- MODULE TraceServer ----------------------------
(***************************************************************************)
(* Trace specification for the lifecycle properties (C15, parts of C19 and *)
(* C09): a monitor over lifecycle calls, their returns and the             *)
(* observations the driver appends (probe dial+PING, bind probe, registry  *)
(* vs. served clients, client sockets, framework goroutines).  The phase   *)
(* is recomputed here from the call/ret events:                            *)
(*   init -Start-> starting -ret-> running -Stop/Restart-> stopping ...    *)
(* What the properties promise, per phase:                                 *)
(*   running  every probe is dialled AND served; the registry equals the   *)
(*            set of scripted clients being served                         *)
(*   stopped  every port can be bound again; at the end every client       *)
(*            socket is closed, the registry is empty and no accept-loop   *)
(*            or connection goroutine remains                              *)
(* A script step the code could not follow ("infeasible") ends the         *)
(* judgement of that scenario (accepted, counted by the driver).           *)
(***************************************************************************)
EXTENDS Integers, Sequences, FiniteSets, TLC, Json
CONSTANTS TraceFile, Diagnose
VARIABLES l, phase, skip,
          base,     \* idle baseline of a churn scenario: [goroutines, fds, conns]
          live      \* scripted clients that registered, did not close and saw no Stop since: they must be served

Trace == ndJsonDeserialize(TraceFile)
ToSet(s) == {s[i] : i \in 1..Len(s)}

NoBase == [goroutines |-> 0 - 1, fds |-> 0 - 1, conns |-> 0 - 1]
Init == l = 1 /\ phase = "init" /\ skip = FALSE /\ base = NoBase /\ live = {}

ObsOK(e) ==
  CASE e.kind = "probe"    -> (phase = "running" => e.dialed /\ e.served)
    [] e.kind = "bind"     -> (phase = "stopped" => e.ok)
    [] e.kind = "registry" -> (phase = "running" /\ ~e.parked => ToSet(e.conns) = ToSet(e.served) /\ live \subseteq ToSet(e.served))
    [] e.kind = "client"   -> (phase = "stopped" => e.state \in {"eof", "refused", "closedbyclient"})
    [] e.kind = "final"    -> (phase = "stopped" => e.conns = 0 /\ e.goroutines = 0)
    [] e.kind = "baseline" -> TRUE
    \* C19: after a batch of connections that ended in every possible way, the server is back at its idle baseline
    [] e.kind = "churn"    -> /\ base # NoBase
                              /\ e.goroutines = base.goroutines /\ e.fds = base.fds /\ e.conns = base.conns
                              /\ e.not_closed = 0                    \* every client saw its socket closed by the server where it must
    [] OTHER -> FALSE

Handle(e) ==
  CASE e.ev = "scenario" -> phase' = "init" /\ skip' = FALSE /\ base' = NoBase /\ live' = {}
    [] e.ev = "call" -> /\ phase' = IF e.call = "Start" THEN "starting" ELSE "stopping"
                        /\ (e.call = "Start" => phase \in {"init", "stopped"})
                        /\ (e.call \in {"Stop", "Restart"} => phase \in {"running"})
                        /\ UNCHANGED <<skip, base>>
                        /\ live' = IF e.call = "Start" THEN live ELSE {}      \* Stop / Restart close every connection
    [] e.ev = "ret"  -> /\ e.err = ""
                        /\ phase' = IF e.call = "Stop" THEN "stopped" ELSE "running"
                        /\ UNCHANGED <<skip, base, live>>
    \* after a step of the script that could not be realised the observations in between are not judged (the schedule
    \* they belong to did not happen), but the ones taken after the wind-down are: whatever happened, after Stop the
    \* ports are free, the clients closed, the registry empty and no goroutine left
    [] e.ev = "obs"  -> /\ ((skip /\ ~(e.kind \in {"final", "client"} \/ (e.kind = "bind" /\ e.where = "final"))) \/ ObsOK(e)) /\ UNCHANGED <<phase, skip>>
                        /\ base' = IF e.kind = "baseline" THEN [goroutines |-> e.goroutines, fds |-> e.fds, conns |-> e.conns] ELSE base
                        /\ UNCHANGED live
    [] e.ev = "infeasible" -> skip' = TRUE /\ UNCHANGED <<phase, base, live>>
    [] e.ev = "registered" -> live' = live \cup {e.x} /\ UNCHANGED <<phase, skip, base>>
    [] e.ev = "clientclose" -> live' = live \ {e.x} /\ UNCHANGED <<phase, skip, base>>
    [] e.ev \in {"point", "release", "dial"} -> UNCHANGED <<phase, skip, base, live>>
    [] OTHER -> FALSE

Step == /\ l <= Len(Trace) /\ Trace[l].ev # "end"
        /\ Handle(Trace[l])
        /\ l' = l + 1
End == /\ l <= Len(Trace) /\ Trace[l].ev = "end"
       /\ PrintT(<<"OK", Trace[l].sc>>)
       /\ l' = l + 1 /\ phase' = "init" /\ skip' = FALSE /\ base' = NoBase /\ live' = {}
GiveUp == /\ ~Diagnose /\ l <= Len(Trace)
          /\ l' = Trace[l].end + 1 /\ phase' = "init" /\ skip' = FALSE /\ base' = NoBase /\ live' = {}
DiagAt == Diagnose => PrintT(<<"AT", l>>)
Next == Step \/ End \/ GiveUp
Spec == Init /\ [][Next]_<<l, phase, skip, base, live>>
=============================================================================
