----------------------------- MODULE Composite -----------------------------
(***************************************************************************)
(* The framework's derived read-modify-write commands as the primitive     *)
(* handler calls they are made of (redis/sugar_commander.go incdecExecutor *)
(* and APPEND, redis/core_commander.go MSETNX): each primitive (Get, Set)  *)
(* is atomic, the command is not.  Used by MC_C16 (design level: which     *)
(* interleavings break atomicity) and by TraceLin's deviation D23.         *)
(*                                                                         *)
(* An operation in progress is [r, pc, acc]: request, primitive calls done *)
(* so far, what the reads returned.  CSteps(ks, p) is the SET of possible  *)
(* results of the next primitive call: [ks, p, done, m] (m: the reply once *)
(* done).  MSETNX iterates a Go map, so its keys are visited in any order. *)
(***************************************************************************)
EXTENDS RedisModel

Composite == {"INCR", "DECR", "INCRBY", "DECRBY", "APPEND", "MSETNX"}
Delta(r) == CASE r.name = "INCR" -> IntNum(1) [] r.name = "DECR" -> IntNum(0 - 1)
              [] r.name = "INCRBY" -> TokNum(r.args[2]) [] r.name = "DECRBY" -> NumNeg(TokNum(r.args[2]))

StrVal(ks, k) == IF Has(ks, k) /\ ks[k].ty = "string" THEN <<TRUE, ks[k].v>> ELSE <<FALSE, <<>>>>
Cont(ks, p)    == [ks |-> ks, p |-> p, done |-> FALSE, m |-> ErrReply]
Done(ks, p, m) == [ks |-> ks, p |-> p, done |-> TRUE, m |-> m]
Begin(r) == [r |-> r, pc |-> 0, acc |-> <<>>]

\* number of primitive calls of a command when nothing cuts it short
NSteps(r) == IF r.name \in {"INCR", "DECR", "INCRBY", "DECRBY", "APPEND"} THEN 2
             ELSE IF r.name = "MSETNX" THEN Len(r.args) ELSE 1

CSteps(ks, p) ==
  LET r == p.r k == r.args[1].b IN
  CASE r.name \in {"INCR", "DECR", "INCRBY", "DECRBY"} ->
         IF p.pc = 0 THEN
           LET g == StrVal(ks, k) IN
           IF g[1] /\ ~IsI64Text(g[2]) THEN {Done(ks, p, ErrReply)}
           ELSE {Cont(ks, [p EXCEPT !.pc = 1, !.acc = IF g[1] THEN TextNum(g[2]) ELSE Zero])}
         ELSE LET nw == NumAdd(p.acc, Delta(r)) IN
           IF ~InI64(nw) THEN {Done(ks, p, ErrReply)}
           ELSE {Done(StrPut(ks, k, NumBytes(nw)), p, Res(IntV(NumBytes(nw)), ks))}
    [] r.name = "APPEND" ->
         IF p.pc = 0 THEN {Cont(ks, [p EXCEPT !.pc = 1, !.acc = StrVal(ks, k)[2]])}
         ELSE LET nv == p.acc \o r.args[2].b IN {Done(StrPut(ks, k, nv), p, Res(IntR(Len(nv)), ks))}
    [] r.name = "MSETNX" ->
         LET n == Len(r.args) \div 2
             left == (1..n) \ {p.acc[j] : j \in 1..Len(p.acc)} IN
         IF p.pc < n THEN     \* Get of each key
           {IF Has(ks, r.args[2 * i - 1].b) THEN Done(ks, p, Res(IntR(0), ks))
            ELSE Cont(ks, [p EXCEPT !.pc = p.pc + 1, !.acc = IF p.pc + 1 = n THEN <<>> ELSE Append(p.acc, i)]) : i \in left}
         ELSE                 \* Set NX of each pair
           {LET ks2 == IF Has(ks, r.args[2 * i - 1].b) THEN ks ELSE StrPut(ks, r.args[2 * i - 1].b, r.args[2 * i].b) IN
            IF p.pc + 1 = 2 * n THEN Done(ks2, p, Res(IntR(1), ks2))
            ELSE Cont(ks2, [p EXCEPT !.pc = p.pc + 1, !.acc = Append(p.acc, i)]) : i \in left}
    [] OTHER -> LET m == Exec(ks, r.name, r.args) IN {Done(IF IsErrRes(m) THEN ks ELSE m.ks, p, m)}    \* a single primitive
=============================================================================
