----------------------------- MODULE TraceGlob -----------------------------
(* C17: every recorded observation of glob.Compile(p).MatchString(k) over a  *)
(* complete key universe is compared with Glob!Match.  One event per pattern:*)
(* the compile error (must be empty) and the keys of the universe that       *)
(* matched.  <<"OK", sc>> is printed for every event that agrees.            *)
EXTENDS Glob, FiniteSets, TLC, Json
CONSTANT TraceFile
VARIABLE l
Trace == ndJsonDeserialize(TraceFile)

Universe(alpha, n) == UNION {[1..k -> {alpha[i] : i \in 1..Len(alpha)}] : k \in 0..n}

GlobOK(e) ==
  /\ e.err = ""                                                     \* compiling never fails
  /\ ~e.panicked
  /\ LET hits == {e.hits[i] : i \in 1..Len(e.hits)} IN
     IF e.universe THEN hits = {k \in Universe(e.alpha, e.klen) : Match(e.p, k)}     \* complete key universe
     ELSE /\ \A i \in 1..Len(e.keys) : (e.keys[i] \in hits) = Match(e.p, e.keys[i])  \* listed keys (random long ones)

Init == l = 1
Next == /\ l <= Len(Trace) /\ l' = l + 1
        /\ (GlobOK(Trace[l]) => PrintT(<<"OK", Trace[l].sc>>))
Spec == Init /\ [][Next]_l
=============================================================================
