----------------------------- MODULE RedisModel -----------------------------
(***************************************************************************)
(* Sequential Redis semantics for the commands of this server:             *)
(* the reference for C12 (framework-derived commands over a faithful       *)
(* store) and C18 (the bundled example store).  Written from the Redis     *)
(* command reference.                                                      *)
(*                                                                         *)
(* A keyspace is a function key -> entry, keys and values byte sequences:  *)
(*   [ty |-> "string", v |-> bytes]      [ty |-> "list", l |-> <<bytes>>]  *)
(*   [ty |-> "hash", h |-> set of <<field, value>>]                        *)
(*   [ty |-> "set", s |-> set of bytes]                                    *)
(*   [ty |-> "zset", z |-> set of [m |-> bytes, s |-> Int]]                *)
(* Scores are integers (TLC has no floats); bounds may be -inf/+inf.       *)
(* Every entry also has x: the key's remaining time to live in            *)
(* milliseconds (0 = persistent) as of the model's clock.  The model clock *)
(* only advances by the scripted pauses of a program (Advance); real time  *)
(* runs ahead of it by at most Slack, so a TTL reply is compared with a    *)
(* window and programs keep deadlines either well inside a pause or far    *)
(* beyond the run.  The model states which commands keep, clear, set or    *)
(* move a key's expiry and that an expired key is gone for every command.  *)
(*                                                                         *)
(* Exec(ks, name, args) = [reply, ks, cmp]; cmp says how the observed      *)
(* reply is compared: "exact", "bag" (array in any order), "pairs"         *)
(* (array of pairs, pairs in any order), "any" (not modelled).             *)
(* args are the request tokens of Commands.tla with their bytes (.b).      *)
(***************************************************************************)
EXTENDS RESP, Glob

EmptyKS == [k \in {} |-> 0]
Has(ks, k) == k \in DOMAIN ks
XOf(ks, k) == IF Has(ks, k) THEN ks[k].x ELSE 0
WithX(e, x) == [f \in DOMAIN e \cup {"x"} |-> IF f = "x" THEN x ELSE e[f]]
PutX(ks, k, e, x) == [y \in DOMAIN ks \cup {k} |-> IF y = k THEN WithX(e, x) ELSE ks[y]]
Put(ks, k, e) == PutX(ks, k, e, XOf(ks, k))       \* modifying a key keeps its time to live
Slack == 4000                                     \* real time may be ahead of the model clock by this many ms
\* the model clock advances by ms: keys whose time to live has run out are gone
Advance(ks, ms) == [k \in {y \in DOMAIN ks : ks[y].x = 0 \/ ks[y].x > ms} |-> IF ks[k].x = 0 THEN ks[k] ELSE [ks[k] EXCEPT !.x = @ - ms]]
\* TTL in seconds for a remaining time of x ms: rounding is the server's business, real time may be Slack ahead
TTLWindow(x) == {n \in ((x - Slack) \div 1000)..((x + 500) \div 1000) : n >= 0}
Drop(ks, k) == [x \in DOMAIN ks \ {k} |-> ks[x]]
IsTy(ks, k, ty) == Has(ks, k) /\ ks[k].ty = ty

Res(reply, ks) == [reply |-> reply, ks |-> ks, cmp |-> "exact"]
ResC(reply, ks, cmp) == [reply |-> reply, ks |-> ks, cmp |-> cmp]
NotModelled(ks) == [reply |-> Null, ks |-> ks, cmp |-> "any"]
ErrReply == [reply |-> Err(<<>>), ks |-> EmptyKS, cmp |-> "error"]   \* any error reply (the keyspace field is not used)
IsErrRes(r) == r.cmp = "error"

\* ---------------------------------------------------------------- decimal numbers
\* a number is [neg |-> BOOLEAN, d |-> digits 0..9 most significant first, no leading zero]
Zero == [neg |-> FALSE, d |-> <<0>>]
IsZero(a) == a.d = <<0>>
RECURSIVE StripZeros(_)
StripZeros(d) == IF Len(d) > 1 /\ d[1] = 0 THEN StripZeros(Tail(d)) ELSE d
RevSeq(s) == [i \in 1..Len(s) |-> s[Len(s) + 1 - i]]
Dig(r, i) == IF i <= Len(r) THEN r[i] ELSE 0
RECURSIVE AddRev(_, _, _, _)        \* least significant first
AddRev(a, b, i, c) == IF i > Len(a) /\ i > Len(b) THEN (IF c = 0 THEN <<>> ELSE <<c>>)
                      ELSE LET t == Dig(a, i) + Dig(b, i) + c IN <<t % 10>> \o AddRev(a, b, i + 1, t \div 10)
RECURSIVE SubRev(_, _, _, _)        \* a >= b, least significant first
SubRev(a, b, i, br) == IF i > Len(a) THEN <<>>
                       ELSE LET t == Dig(a, i) - Dig(b, i) - br IN
                            IF t < 0 THEN <<t + 10>> \o SubRev(a, b, i + 1, 1) ELSE <<t>> \o SubRev(a, b, i + 1, 0)
RECURSIVE LexCmp(_, _, _)           \* -1, 0, 1 on equal-length digit sequences
LexCmp(a, b, i) == IF i > Len(a) THEN 0 ELSE IF a[i] < b[i] THEN 0 - 1 ELSE IF a[i] > b[i] THEN 1 ELSE LexCmp(a, b, i + 1)
MagCmp(a, b) == IF Len(a) < Len(b) THEN 0 - 1 ELSE IF Len(a) > Len(b) THEN 1 ELSE LexCmp(a, b, 1)
MagAdd(a, b) == StripZeros(RevSeq(AddRev(RevSeq(a), RevSeq(b), 1, 0)))
MagSub(a, b) == StripZeros(RevSeq(SubRev(RevSeq(a), RevSeq(b), 1, 0)))
Norm(n) == IF n.d = <<0>> THEN Zero ELSE n
NumAdd(a, b) == IF a.neg = b.neg THEN Norm([neg |-> a.neg, d |-> MagAdd(a.d, b.d)])
                ELSE IF MagCmp(a.d, b.d) >= 0 THEN Norm([neg |-> a.neg, d |-> MagSub(a.d, b.d)])
                ELSE Norm([neg |-> b.neg, d |-> MagSub(b.d, a.d)])
NumNeg(a) == IF IsZero(a) THEN a ELSE [neg |-> ~a.neg, d |-> a.d]
Max63 == <<9, 2, 2, 3, 3, 7, 2, 0, 3, 6, 8, 5, 4, 7, 7, 5, 8, 0, 7>>
Min63 == <<9, 2, 2, 3, 3, 7, 2, 0, 3, 6, 8, 5, 4, 7, 7, 5, 8, 0, 8>>
InI64(a) == IF a.neg THEN MagCmp(a.d, Min63) <= 0 ELSE MagCmp(a.d, Max63) <= 0
NumBytes(a) == (IF a.neg THEN <<MINUS>> ELSE <<>>) \o [i \in 1..Len(a.d) |-> 48 + a.d[i]]
\* canonical decimal text of a 64-bit integer -> number; anything else is "not an integer"
IsI64Text(p) == CanonInt(p) /\ InI64([neg |-> p[1] = MINUS, d |-> [i \in 1..(IF p[1] = MINUS THEN Len(p) - 1 ELSE Len(p)) |-> (IF p[1] = MINUS THEN p[i + 1] ELSE p[i]) - 48]])
TextNum(p) == LET neg == p[1] = MINUS
                  ds == IF neg THEN Tail(p) ELSE p IN [neg |-> neg /\ ds # <<48>>, d |-> [i \in 1..Len(ds) |-> ds[i] - 48]]
RECURSIVE NatNumDigits(_)
NatNumDigits(n) == IF n < 10 THEN <<n>> ELSE NatNumDigits(n \div 10) \o <<n % 10>>
IntNum(i) == IF i < 0 THEN [neg |-> TRUE, d |-> NatNumDigits(0 - i)] ELSE [neg |-> FALSE, d |-> NatNumDigits(i)]
IntBytes(i) == NumBytes(IntNum(i))
BigNum == [x \in {"max64", "min64", "2^31", "max64-1", "-2^31-1"} |->
             CASE x = "max64" -> [neg |-> FALSE, d |-> Max63]
               [] x = "min64" -> [neg |-> TRUE, d |-> Min63]
               [] x = "2^31" -> [neg |-> FALSE, d |-> <<2, 1, 4, 7, 4, 8, 3, 6, 4, 8>>]
               [] x = "max64-1" -> [neg |-> FALSE, d |-> <<9, 2, 2, 3, 3, 7, 2, 0, 3, 6, 8, 5, 4, 7, 7, 5, 8, 0, 6>>]
               [] x = "-2^31-1" -> [neg |-> TRUE, d |-> <<2, 1, 4, 7, 4, 8, 3, 6, 4, 9>>]]
TokNum(t) == IF t.big = "" THEN IntNum(t.n) ELSE BigNum[t.big]

\* ---------------------------------------------------------------- helpers
IntR(i) == IntV(IntBytes(i))
BulkArr(s) == Arr([i \in 1..Len(s) |-> Bulk(s[i])])
RECURSIVE SetToSeq(_)
SetToSeq(S) == IF S = {} THEN <<>> ELSE LET e == CHOOSE x \in S : TRUE IN <<e>> \o SetToSeq(S \ {e})
RECURSIVE LexLess(_, _, _)         \* byte-wise order of two byte strings
LexLess(a, b, i) == IF i > Len(a) THEN i <= Len(b)
                    ELSE IF i > Len(b) THEN FALSE
                    ELSE IF a[i] < b[i] THEN TRUE ELSE IF a[i] > b[i] THEN FALSE ELSE LexLess(a, b, i + 1)
Str8(tok) == tok.b                 \* bytes of a request token
IsInt(tok) == tok.k = "int"

\* Redis index normalisation for ranges over n elements: returns <<lo, hi>> (1-based, inclusive) or <<1, 0>> if empty
Range(n, start, stop) ==
  LET s0 == IF start < 0 THEN n + start ELSE start
      e0 == IF stop < 0 THEN n + stop ELSE stop
      s1 == IF s0 < 0 THEN 0 ELSE s0
      e1 == IF e0 >= n THEN n - 1 ELSE e0 IN
  IF n = 0 \/ s1 > e1 \/ s1 >= n THEN <<1, 0>> ELSE <<s1 + 1, e1 + 1>>
Slice(s, r) == IF r[1] > r[2] THEN <<>> ELSE SubSeq(s, r[1], r[2])

\* GETRANGE clamping (Redis getrangeCommand)
GetRange(s, start, stop) ==
  LET n == Len(s) IN
  IF start < 0 /\ stop < 0 /\ start > stop THEN <<>>
  ELSE LET a0 == IF start < 0 THEN n + start ELSE start
           b0 == IF stop < 0 THEN n + stop ELSE stop
           a == IF a0 < 0 THEN 0 ELSE a0
           b1 == IF b0 < 0 THEN 0 ELSE b0
           b == IF b1 >= n THEN n - 1 ELSE b1 IN
       IF n = 0 \/ a > b THEN <<>> ELSE SubSeq(s, a + 1, b + 1)

\* ---------------------------------------------------------------- sorted sets
ZLess(x, y) == x.s < y.s \/ (x.s = y.s /\ LexLess(x.m, y.m, 1))
RECURSIVE ZSort(_)
ZSort(z) == IF z = {} THEN <<>> ELSE LET mn == CHOOSE x \in z : \A y \in z : y = x \/ ZLess(x, y) IN <<mn>> \o ZSort(z \ {mn})
ZOf(ks, k) == IF Has(ks, k) THEN ks[k].z ELSE {}
ZPut(ks, k, z) == IF z = {} THEN Drop(ks, k) ELSE Put(ks, k, [ty |-> "zset", z |-> z])
ZMembers(seq, ws) == IF ws THEN Arr([i \in 1..(2 * Len(seq)) |-> IF i % 2 = 1 THEN Bulk(seq[(i + 1) \div 2].m) ELSE Bulk(IntBytes(seq[i \div 2].s))])
                     ELSE Arr([i \in 1..Len(seq) |-> Bulk(seq[i].m)])
\* a score bound: [inf |-> -1 | 0 | 1, v |-> Int, ex |-> BOOLEAN]
BoundOf(t) == IF t.k = "int" THEN [inf |-> 0, v |-> t.n, ex |-> FALSE]
              ELSE IF t.f = "+inf" THEN [inf |-> 1, v |-> 0, ex |-> t.k = "bound" /\ t.ex]
              ELSE IF t.f = "-inf" THEN [inf |-> 0 - 1, v |-> 0, ex |-> t.k = "bound" /\ t.ex]
              ELSE [inf |-> 0, v |-> CASE t.f = "0" -> 0 [] t.f = "1" -> 1 [] t.f = "2" -> 2 [] t.f = "3" -> 3 [] t.f = "5" -> 5
                                      [] t.f = "10" -> 10 [] t.f = "-1" -> 0 - 1 [] t.f = "-2" -> 0 - 2 [] OTHER -> 0, ex |-> t.k = "bound" /\ t.ex]
IntegralBound(t) == t.k = "int" \/ t.f \in {"+inf", "-inf", "0", "1", "2", "3", "5", "10", "-1", "-2"}
AboveMin(s, b) == b.inf = 0 - 1 \/ (b.inf = 0 /\ (IF b.ex THEN s > b.v ELSE s >= b.v))
BelowMax(s, b) == b.inf = 1 \/ (b.inf = 0 /\ (IF b.ex THEN s < b.v ELSE s <= b.v))
Limit(seq, off, cnt) == IF off < 0 THEN <<>>
                        ELSE LET lo == off + 1
                                 hi == IF cnt < 0 THEN Len(seq) ELSE IF off + cnt > Len(seq) THEN Len(seq) ELSE off + cnt IN
                             IF lo > hi THEN <<>> ELSE SubSeq(seq, lo, hi)

\* option tail of the range commands: WITHSCORES, LIMIT off cnt, REV, BYSCORE in any order
RECURSIVE RangeOpts(_, _, _)
RangeOpts(ts, i, acc) ==
  IF i > Len(ts) THEN acc
  ELSE IF ts[i].k # "word" THEN [acc EXCEPT !.ok = FALSE]
  ELSE IF ts[i].w = "WITHSCORES" THEN RangeOpts(ts, i + 1, [acc EXCEPT !.ws = TRUE])
  ELSE IF ts[i].w = "REV" THEN RangeOpts(ts, i + 1, [acc EXCEPT !.rev = TRUE])
  ELSE IF ts[i].w = "BYSCORE" THEN RangeOpts(ts, i + 1, [acc EXCEPT !.byscore = TRUE])
  ELSE IF ts[i].w = "LIMIT" /\ i + 2 <= Len(ts) /\ IsInt(ts[i + 1]) /\ IsInt(ts[i + 2]) /\ ts[i + 1].big = "" /\ ts[i + 2].big = ""
       THEN RangeOpts(ts, i + 3, [acc EXCEPT !.lim = TRUE, !.off = ts[i + 1].n, !.cnt = ts[i + 2].n])
  ELSE [acc EXCEPT !.ok = FALSE]
RO0 == [ok |-> TRUE, ws |-> FALSE, rev |-> FALSE, byscore |-> FALSE, lim |-> FALSE, off |-> 0, cnt |-> 0 - 1]

\* ---------------------------------------------------------------- entries of the other types
StrOf(ks, k) == ks[k].v
ListOf(ks, k) == IF Has(ks, k) THEN ks[k].l ELSE <<>>
ListPut(ks, k, l) == IF l = <<>> THEN Drop(ks, k) ELSE Put(ks, k, [ty |-> "list", l |-> l])
SetOf(ks, k) == IF Has(ks, k) THEN ks[k].s ELSE {}
SetPut(ks, k, s) == IF s = {} THEN Drop(ks, k) ELSE Put(ks, k, [ty |-> "set", s |-> s])
HashOf(ks, k) == IF Has(ks, k) THEN ks[k].h ELSE {}
HashPut(ks, k, h) == IF h = {} THEN Drop(ks, k) ELSE Put(ks, k, [ty |-> "hash", h |-> h])
HFields(h) == {p[1] : p \in h}
HGetV(h, f) == (CHOOSE p \in h : p[1] = f)[2]
HSetV(h, f, v) == {p \in h : p[1] # f} \cup {<<f, v>>}
StrPut(ks, k, v) == Put(ks, k, [ty |-> "string", v |-> v])              \* APPEND, INCR..: the expiry stays
StrSet(ks, k, v) == PutX(ks, k, [ty |-> "string", v |-> v], 0)          \* SET and its relatives: the key becomes persistent
StrSetX(ks, k, v, x) == PutX(ks, k, [ty |-> "string", v |-> v], x)
GetReply(ks, k) == IF IsTy(ks, k, "string") THEN Bulk(StrOf(ks, k)) ELSE Null

TypeOK(ks, k, ty) == ~Has(ks, k) \/ ks[k].ty = ty          \* programs use each key with one type; otherwise not modelled

\* fold helpers over argument lists
RECURSIVE SetPairs(_, _, _)          \* MSET / HMSET: later pairs win
SetPairs(ks, ts, i) == IF i > Len(ts) THEN ks ELSE SetPairs(StrSet(ks, Str8(ts[i]), Str8(ts[i + 1])), ts, i + 2)
RECURSIVE HSetPairs(_, _, _)
HSetPairs(h, ts, i) == IF i > Len(ts) THEN h ELSE HSetPairs(HSetV(h, Str8(ts[i]), Str8(ts[i + 1])), ts, i + 2)
RECURSIVE PushAll(_, _, _, _)
PushAll(l, ts, i, left) == IF i > Len(ts) THEN l ELSE PushAll(IF left THEN <<Str8(ts[i])>> \o l ELSE Append(l, Str8(ts[i])), ts, i + 1, left)
Bytes(ts) == {Str8(ts[i]) : i \in 1..Len(ts)}
RECURSIVE CountExisting(_, _, _)
CountExisting(ks, ts, i) == IF i > Len(ts) THEN 0 ELSE (IF Has(ks, Str8(ts[i])) THEN 1 ELSE 0) + CountExisting(ks, ts, i + 1)
RECURSIVE DropAll(_, _, _)
DropAll(ks, ts, i) == IF i > Len(ts) THEN ks ELSE DropAll(IF Has(ks, Str8(ts[i])) THEN Drop(ks, Str8(ts[i])) ELSE ks, ts, i + 1)
RECURSIVE ZAddAll(_, _, _)          \* plain ZADD: score/member pairs in order, one entry per member
ZAddAll(z, ts, i) == IF i > Len(ts) THEN z
                     ELSE ZAddAll({x \in z : x.m # Str8(ts[i + 1])} \cup {[m |-> Str8(ts[i + 1]), s |-> ts[i].n]}, ts, i + 2)

IncrBy(ks, k, delta) ==
  IF Has(ks, k) /\ ~IsI64Text(StrOf(ks, k)) THEN ErrReply
  ELSE LET cur == IF Has(ks, k) THEN TextNum(StrOf(ks, k)) ELSE Zero
           nw == NumAdd(cur, delta) IN
       IF ~InI64(nw) THEN ErrReply ELSE Res(IntV(NumBytes(nw)), StrPut(ks, k, NumBytes(nw)))

\* ---------------------------------------------------------------- the commands
\* (arity and lexical errors are C10's business: Exec is applied to well-formed requests; anything else -> NotModelled)
A(args, i) == Str8(args[i])
AllStr(args) == \A i \in 1..Len(args) : args[i].k # "null"

Exec(ks, name, args) ==
  IF ~AllStr(args) THEN NotModelled(ks) ELSE
  LET n == Len(args) IN
  CASE name = "GET" /\ n = 1 /\ TypeOK(ks, A(args, 1), "string") -> Res(GetReply(ks, A(args, 1)), ks)
    [] name = "SET" /\ n = 2 -> Res(Str(<<79, 75>>), StrSet(ks, A(args, 1), A(args, 2)))
    [] name = "SET" /\ n = 3 /\ args[3].k = "word" /\ args[3].w = "XX" /\ TypeOK(ks, A(args, 1), "string") ->
         IF Has(ks, A(args, 1)) THEN Res(Str(<<79, 75>>), StrSet(ks, A(args, 1), A(args, 2))) ELSE Res(Null, ks)
    [] name = "SET" /\ n = 3 /\ args[3].k = "word" /\ args[3].w = "GET" /\ TypeOK(ks, A(args, 1), "string") ->
         Res(GetReply(ks, A(args, 1)), StrSet(ks, A(args, 1), A(args, 2)))
    [] name = "SET" /\ n = 3 /\ args[3].k = "word" /\ args[3].w = "KEEPTTL" ->
         Res(Str(<<79, 75>>), StrSetX(ks, A(args, 1), A(args, 2), XOf(ks, A(args, 1))))
    [] name = "SET" /\ n = 4 /\ args[3].k = "word" /\ args[3].w \in {"EX", "PX"} /\ IsInt(args[4]) /\ args[4].big = "" /\ args[4].n > 0 /\ args[4].n < 1000000 ->
         Res(Str(<<79, 75>>), StrSetX(ks, A(args, 1), A(args, 2), IF args[3].w = "EX" THEN args[4].n * 1000 ELSE args[4].n))
    [] name = "SETEX" /\ n = 3 /\ IsInt(args[2]) /\ args[2].big = "" /\ args[2].n > 0 /\ args[2].n < 1000000 ->
         Res(Str(<<79, 75>>), StrSetX(ks, A(args, 1), A(args, 3), args[2].n * 1000))
    [] name = "GETSET" /\ n = 2 /\ TypeOK(ks, A(args, 1), "string") -> Res(GetReply(ks, A(args, 1)), StrSet(ks, A(args, 1), A(args, 2)))
    [] name = "SETNX" /\ n = 2 -> IF Has(ks, A(args, 1)) THEN Res(IntR(0), ks) ELSE Res(IntR(1), StrSet(ks, A(args, 1), A(args, 2)))
    [] name = "MSET" /\ n >= 2 /\ n % 2 = 0 -> Res(Str(<<79, 75>>), SetPairs(ks, args, 1))
    [] name = "MSETNX" /\ n >= 2 /\ n % 2 = 0 ->
         IF \E i \in 1..(n \div 2) : Has(ks, A(args, 2 * i - 1)) THEN Res(IntR(0), ks) ELSE Res(IntR(1), SetPairs(ks, args, 1))
    [] name = "MGET" /\ n >= 1 -> Res(Arr([i \in 1..n |-> GetReply(ks, A(args, i))]), ks)
    [] name = "APPEND" /\ n = 2 /\ TypeOK(ks, A(args, 1), "string") ->
         LET nv == (IF Has(ks, A(args, 1)) THEN StrOf(ks, A(args, 1)) ELSE <<>>) \o A(args, 2) IN Res(IntR(Len(nv)), StrPut(ks, A(args, 1), nv))
    [] name = "STRLEN" /\ n = 1 /\ TypeOK(ks, A(args, 1), "string") -> Res(IntR(IF Has(ks, A(args, 1)) THEN Len(StrOf(ks, A(args, 1))) ELSE 0), ks)
    [] name \in {"GETRANGE", "SUBSTR"} /\ n = 3 /\ IsInt(args[2]) /\ IsInt(args[3]) /\ args[2].big = "" /\ args[3].big = "" /\ TypeOK(ks, A(args, 1), "string") ->
         Res(Bulk(GetRange(IF Has(ks, A(args, 1)) THEN StrOf(ks, A(args, 1)) ELSE <<>>, args[2].n, args[3].n)), ks)
    [] name = "INCR" /\ n = 1 /\ TypeOK(ks, A(args, 1), "string") -> IncrBy(ks, A(args, 1), IntNum(1))
    [] name = "DECR" /\ n = 1 /\ TypeOK(ks, A(args, 1), "string") -> IncrBy(ks, A(args, 1), IntNum(0 - 1))
    [] name = "INCRBY" /\ n = 2 /\ IsInt(args[2]) /\ TypeOK(ks, A(args, 1), "string") -> IncrBy(ks, A(args, 1), TokNum(args[2]))
    [] name = "DECRBY" /\ n = 2 /\ IsInt(args[2]) /\ TypeOK(ks, A(args, 1), "string") ->
         IF args[2].big = "min64" THEN ErrReply ELSE IncrBy(ks, A(args, 1), NumNeg(TokNum(args[2])))
    \* generic
    [] name = "DEL" /\ n >= 1 -> Res(IntR(Cardinality({k \in Bytes(args) : Has(ks, k)})), DropAll(ks, args, 1))
    [] name = "EXISTS" /\ n >= 1 -> Res(IntR(CountExisting(ks, args, 1)), ks)
    [] name = "TYPE" /\ n = 1 -> Res(Str(IF ~Has(ks, A(args, 1)) THEN <<110, 111, 110, 101>>
                                        ELSE CASE ks[A(args, 1)].ty = "string" -> <<115, 116, 114, 105, 110, 103>>
                                               [] ks[A(args, 1)].ty = "hash" -> <<104, 97, 115, 104>>
                                               [] ks[A(args, 1)].ty = "list" -> <<108, 105, 115, 116>>
                                               [] ks[A(args, 1)].ty = "set" -> <<115, 101, 116>>
                                               [] ks[A(args, 1)].ty = "zset" -> <<122, 115, 101, 116>>), ks)
    [] name = "RENAME" /\ n = 2 ->
         IF ~Has(ks, A(args, 1)) THEN ErrReply
         ELSE IF A(args, 1) = A(args, 2) THEN Res(Str(<<79, 75>>), ks)
         ELSE Res(Str(<<79, 75>>), PutX(Drop(ks, A(args, 1)), A(args, 2), ks[A(args, 1)], ks[A(args, 1)].x))   \* the expiry moves with the value
    [] name = "RENAMENX" /\ n = 2 ->
         IF ~Has(ks, A(args, 1)) THEN ErrReply
         ELSE IF Has(ks, A(args, 2)) THEN Res(IntR(0), ks)
         ELSE Res(IntR(1), PutX(Drop(ks, A(args, 1)), A(args, 2), ks[A(args, 1)], ks[A(args, 1)].x))
    \* expiry.  EXPIRE key seconds [NX | XX | GT | LT]: a non-positive time deletes the key; a persistent key counts as
    \* an infinite time to live for GT / LT
    [] name = "EXPIRE" /\ n \in {2, 3} /\ IsInt(args[2]) /\ args[2].big = "" /\ args[2].n < 1000000 /\ args[2].n > 0 - 1000000
                       /\ (n = 3 => args[3].k = "word" /\ args[3].w \in {"NX", "XX", "GT", "LT"}) ->
         LET k == A(args, 1) t == args[2].n * 1000 cur == XOf(ks, k) w == IF n = 3 THEN args[3].w ELSE "" IN
         IF ~Has(ks, k) THEN Res(IntR(0), ks)
         \* the same number of seconds as the current expiry under GT / LT: whether the new deadline is later depends on
         \* the clock's resolution; either answer, and the expiry is t in both cases
         ELSE IF w \in {"GT", "LT"} /\ cur # 0 /\ t = cur THEN [reply |-> IntR(1), ks |-> ks, cmp |-> "alt", alt |-> {IntR(0)}]
         ELSE IF (w = "NX" /\ cur # 0) \/ (w = "XX" /\ cur = 0) \/ (w = "GT" /\ (cur = 0 \/ t <= cur)) \/ (w = "LT" /\ cur # 0 /\ t >= cur)
              THEN Res(IntR(0), ks)
         ELSE IF t <= 0 THEN Res(IntR(1), Drop(ks, k))
         ELSE Res(IntR(1), PutX(ks, k, ks[k], t))
    [] name = "TTL" /\ n = 1 ->
         IF ~Has(ks, A(args, 1)) THEN Res(IntR(0 - 2), ks)
         ELSE IF XOf(ks, A(args, 1)) = 0 THEN Res(IntR(0 - 1), ks)
         ELSE [reply |-> IntR((XOf(ks, A(args, 1)) + 500) \div 1000), ks |-> ks, cmp |-> "alt", alt |-> {IntR(t) : t \in TTLWindow(XOf(ks, A(args, 1)))}]
    [] name = "KEYS" /\ n = 1 -> ResC(BulkArr(SetToSeq({k \in DOMAIN ks : Match(A(args, 1), k)})), ks, "bag")
    \* one complete SCAN call (cursor 0, COUNT larger than the keyspace): the selected keys; the cursor value is not judged
    [] name = "SCAN" /\ n = 5 /\ IsInt(args[1]) /\ args[1].big = "" /\ args[1].n = 0 /\ args[2].k = "word" /\ args[2].w = "MATCH"
         /\ args[4].k = "word" /\ args[4].w = "COUNT" /\ IsInt(args[5]) /\ args[5].big = "" /\ args[5].n > Cardinality(DOMAIN ks) ->
         ResC(Arr(<<Bulk(<<48>>), BulkArr(SetToSeq({k \in DOMAIN ks : Match(A(args, 3), k)}))>>), ks, "scan")
    \* hashes
    [] name \in {"HSET", "HSETNX"} /\ n = 3 /\ TypeOK(ks, A(args, 1), "hash") ->
         LET h == HashOf(ks, A(args, 1)) IN
         IF A(args, 2) \in HFields(h) THEN (IF name = "HSETNX" THEN Res(IntR(0), ks) ELSE Res(IntR(0), HashPut(ks, A(args, 1), HSetV(h, A(args, 2), A(args, 3)))))
         ELSE Res(IntR(1), HashPut(ks, A(args, 1), HSetV(h, A(args, 2), A(args, 3))))
    [] name = "HMSET" /\ n >= 3 /\ n % 2 = 1 /\ TypeOK(ks, A(args, 1), "hash") ->
         Res(Str(<<79, 75>>), HashPut(ks, A(args, 1), HSetPairs(HashOf(ks, A(args, 1)), Tail(args), 1)))
    [] name = "HGET" /\ n = 2 /\ TypeOK(ks, A(args, 1), "hash") ->
         LET h == HashOf(ks, A(args, 1)) IN Res(IF A(args, 2) \in HFields(h) THEN Bulk(HGetV(h, A(args, 2))) ELSE Null, ks)
    [] name = "HMGET" /\ n >= 2 /\ TypeOK(ks, A(args, 1), "hash") ->
         LET h == HashOf(ks, A(args, 1)) IN Res(Arr([i \in 1..(n - 1) |-> IF A(args, i + 1) \in HFields(h) THEN Bulk(HGetV(h, A(args, i + 1))) ELSE Null]), ks)
    [] name = "HDEL" /\ n >= 2 /\ TypeOK(ks, A(args, 1), "hash") ->
         LET h == HashOf(ks, A(args, 1)) gone == Bytes(Tail(args)) \cap HFields(h) IN
         Res(IntR(Cardinality(gone)), HashPut(ks, A(args, 1), {p \in h : p[1] \notin gone}))
    [] name = "HGETALL" /\ n = 1 /\ TypeOK(ks, A(args, 1), "hash") ->
         LET ps == SetToSeq(HashOf(ks, A(args, 1))) IN
         ResC(Arr([i \in 1..(2 * Len(ps)) |-> IF i % 2 = 1 THEN Bulk(ps[(i + 1) \div 2][1]) ELSE Bulk(ps[i \div 2][2])]), ks, "pairs")
    [] name = "HKEYS" /\ n = 1 /\ TypeOK(ks, A(args, 1), "hash") -> ResC(BulkArr(SetToSeq(HFields(HashOf(ks, A(args, 1))))), ks, "bag")
    [] name = "HVALS" /\ n = 1 /\ TypeOK(ks, A(args, 1), "hash") ->
         LET ps == SetToSeq(HashOf(ks, A(args, 1))) IN ResC(Arr([i \in 1..Len(ps) |-> Bulk(ps[i][2])]), ks, "bag")
    [] name = "HLEN" /\ n = 1 /\ TypeOK(ks, A(args, 1), "hash") -> Res(IntR(Cardinality(HashOf(ks, A(args, 1)))), ks)
    [] name = "HEXISTS" /\ n = 2 /\ TypeOK(ks, A(args, 1), "hash") -> Res(IntR(IF A(args, 2) \in HFields(HashOf(ks, A(args, 1))) THEN 1 ELSE 0), ks)
    [] name = "HSTRLEN" /\ n = 2 /\ TypeOK(ks, A(args, 1), "hash") ->
         LET h == HashOf(ks, A(args, 1)) IN Res(IntR(IF A(args, 2) \in HFields(h) THEN Len(HGetV(h, A(args, 2))) ELSE 0), ks)
    \* lists
    [] name \in {"LPUSH", "RPUSH", "LPUSHX", "RPUSHX"} /\ n >= 2 /\ TypeOK(ks, A(args, 1), "list") ->
         IF name \in {"LPUSHX", "RPUSHX"} /\ ~Has(ks, A(args, 1)) THEN Res(IntR(0), ks)
         ELSE LET l == PushAll(ListOf(ks, A(args, 1)), Tail(args), 1, name \in {"LPUSH", "LPUSHX"}) IN Res(IntR(Len(l)), ListPut(ks, A(args, 1), l))
    [] name \in {"LPOP", "RPOP"} /\ n = 1 /\ TypeOK(ks, A(args, 1), "list") ->
         LET l == ListOf(ks, A(args, 1)) IN
         IF l = <<>> THEN Res(Null, ks)
         ELSE IF name = "LPOP" THEN Res(Bulk(Head(l)), ListPut(ks, A(args, 1), Tail(l)))
         ELSE Res(Bulk(l[Len(l)]), ListPut(ks, A(args, 1), SubSeq(l, 1, Len(l) - 1)))
    [] name \in {"LPOP", "RPOP"} /\ n = 2 /\ IsInt(args[2]) /\ args[2].big = "" /\ args[2].n >= 2 /\ TypeOK(ks, A(args, 1), "list") ->
         LET l == ListOf(ks, A(args, 1)) c == IF args[2].n > Len(l) THEN Len(l) ELSE args[2].n IN
         IF l = <<>> THEN Res(Null, ks)
         ELSE IF name = "LPOP" THEN Res(BulkArr(SubSeq(l, 1, c)), ListPut(ks, A(args, 1), SubSeq(l, c + 1, Len(l))))
         ELSE Res(BulkArr(RevSeq(SubSeq(l, Len(l) - c + 1, Len(l)))), ListPut(ks, A(args, 1), SubSeq(l, 1, Len(l) - c)))
    [] name = "LRANGE" /\ n = 3 /\ IsInt(args[2]) /\ IsInt(args[3]) /\ args[2].big = "" /\ args[3].big = "" /\ TypeOK(ks, A(args, 1), "list") ->
         LET l == ListOf(ks, A(args, 1)) IN Res(BulkArr(Slice(l, Range(Len(l), args[2].n, args[3].n))), ks)
    [] name = "LINDEX" /\ n = 2 /\ IsInt(args[2]) /\ args[2].big = "" /\ TypeOK(ks, A(args, 1), "list") ->
         LET l == ListOf(ks, A(args, 1)) i == IF args[2].n < 0 THEN Len(l) + args[2].n ELSE args[2].n IN
         Res(IF i >= 0 /\ i < Len(l) THEN Bulk(l[i + 1]) ELSE Null, ks)
    [] name = "LLEN" /\ n = 1 /\ TypeOK(ks, A(args, 1), "list") -> Res(IntR(Len(ListOf(ks, A(args, 1)))), ks)
    \* sets
    [] name = "SADD" /\ n >= 2 /\ TypeOK(ks, A(args, 1), "set") ->
         LET s == SetOf(ks, A(args, 1)) add == Bytes(Tail(args)) \ s IN Res(IntR(Cardinality(add)), SetPut(ks, A(args, 1), s \cup add))
    [] name = "SREM" /\ n >= 2 /\ TypeOK(ks, A(args, 1), "set") ->
         LET s == SetOf(ks, A(args, 1)) rm == Bytes(Tail(args)) \cap s IN Res(IntR(Cardinality(rm)), SetPut(ks, A(args, 1), s \ rm))
    [] name = "SMEMBERS" /\ n = 1 /\ TypeOK(ks, A(args, 1), "set") -> ResC(BulkArr(SetToSeq(SetOf(ks, A(args, 1)))), ks, "bag")
    [] name = "SCARD" /\ n = 1 /\ TypeOK(ks, A(args, 1), "set") -> Res(IntR(Cardinality(SetOf(ks, A(args, 1)))), ks)
    [] name = "SISMEMBER" /\ n = 2 /\ TypeOK(ks, A(args, 1), "set") -> Res(IntR(IF A(args, 2) \in SetOf(ks, A(args, 1)) THEN 1 ELSE 0), ks)
    \* sorted sets (integer scores)
    [] name = "ZADD" /\ n >= 3 /\ n % 2 = 1 /\ (\A i \in 1..((n - 1) \div 2) : IsInt(args[2 * i]) /\ args[2 * i].big = "") /\ TypeOK(ks, A(args, 1), "zset") ->
         LET z == ZOf(ks, A(args, 1)) z2 == ZAddAll(z, Tail(args), 1) IN
         Res(IntR(Cardinality({x.m : x \in z2} \ {x.m : x \in z})), ZPut(ks, A(args, 1), z2))
    [] name = "ZREM" /\ n >= 2 /\ TypeOK(ks, A(args, 1), "zset") ->
         LET z == ZOf(ks, A(args, 1)) rm == {x \in z : x.m \in Bytes(Tail(args))} IN Res(IntR(Cardinality(rm)), ZPut(ks, A(args, 1), z \ rm))
    [] name = "ZSCORE" /\ n = 2 /\ TypeOK(ks, A(args, 1), "zset") ->
         LET hit == {x \in ZOf(ks, A(args, 1)) : x.m = A(args, 2)} IN
         Res(IF hit = {} THEN Null ELSE Bulk(IntBytes((CHOOSE x \in hit : TRUE).s)), ks)
    [] name = "ZCARD" /\ n = 1 /\ TypeOK(ks, A(args, 1), "zset") -> Res(IntR(Cardinality(ZOf(ks, A(args, 1)))), ks)
    [] name = "ZINCRBY" /\ n = 3 /\ IsInt(args[2]) /\ args[2].big = "" /\ TypeOK(ks, A(args, 1), "zset") ->
         LET z == ZOf(ks, A(args, 1)) hit == {x \in z : x.m = A(args, 3)}
             ns == (IF hit = {} THEN 0 ELSE (CHOOSE x \in hit : TRUE).s) + args[2].n IN
         Res(Bulk(IntBytes(ns)), ZPut(ks, A(args, 1), (z \ hit) \cup {[m |-> A(args, 3), s |-> ns]}))
    [] name \in {"ZRANGE", "ZREVRANGE"} /\ n >= 3 /\ TypeOK(ks, A(args, 1), "zset") ->
         LET o == RangeOpts(SubSeq(args, 4, n), 1, RO0)
             asc == ZSort(ZOf(ks, A(args, 1))) IN
         IF ~o.ok \/ (name = "ZREVRANGE" /\ (o.rev \/ o.byscore \/ o.lim)) THEN NotModelled(ks)
         ELSE IF o.byscore THEN
           (IF ~IntegralBound(args[2]) \/ ~IntegralBound(args[3]) THEN NotModelled(ks)
            ELSE LET lo == BoundOf(IF o.rev THEN args[3] ELSE args[2]) hi == BoundOf(IF o.rev THEN args[2] ELSE args[3])
                     sel == SelectSeq(asc, LAMBDA x : AboveMin(x.s, lo) /\ BelowMax(x.s, hi))
                     ord == IF o.rev THEN RevSeq(sel) ELSE sel IN
                 Res(ZMembers(IF o.lim THEN Limit(ord, o.off, o.cnt) ELSE ord, o.ws), ks))
         ELSE IF ~IsInt(args[2]) \/ ~IsInt(args[3]) \/ args[2].big # "" \/ args[3].big # "" \/ o.lim THEN NotModelled(ks)
         ELSE LET ord == IF name = "ZREVRANGE" \/ o.rev THEN RevSeq(asc) ELSE asc IN
              Res(ZMembers(Slice(ord, Range(Len(ord), args[2].n, args[3].n)), o.ws), ks)
    [] name \in {"ZRANGEBYSCORE", "ZREVRANGEBYSCORE"} /\ n >= 3 /\ TypeOK(ks, A(args, 1), "zset") ->
         LET o == RangeOpts(SubSeq(args, 4, n), 1, RO0)
             rev == name = "ZREVRANGEBYSCORE" IN
         IF ~o.ok \/ o.rev \/ o.byscore \/ ~IntegralBound(args[2]) \/ ~IntegralBound(args[3]) THEN NotModelled(ks)
         ELSE LET lo == BoundOf(IF rev THEN args[3] ELSE args[2]) hi == BoundOf(IF rev THEN args[2] ELSE args[3])
                  sel == SelectSeq(ZSort(ZOf(ks, A(args, 1))), LAMBDA x : AboveMin(x.s, lo) /\ BelowMax(x.s, hi))
                  ord == IF rev THEN RevSeq(sel) ELSE sel IN
              Res(ZMembers(IF o.lim THEN Limit(ord, o.off, o.cnt) ELSE ord, o.ws), ks)
    [] OTHER -> NotModelled(ks)

\* ---------------------------------------------------------------- comparison of an observed reply
IsBulkArr(v) == v.t = "arr" /\ \A i \in 1..Len(v.e) : v.e[i].t = "bulk"
BagOf(v) == [x \in {v.e[i] : i \in 1..Len(v.e)} |-> Cardinality({i \in 1..Len(v.e) : v.e[i] = x})]
PairsOf(v) == {<<v.e[2 * i - 1], v.e[2 * i]>> : i \in 1..(Len(v.e) \div 2)}
ReplyMatches(r, v) ==
  CASE r.cmp = "exact" -> v = r.reply
    [] r.cmp = "error" -> v.t = "err"
    [] r.cmp = "bag"   -> v.t = "arr" /\ Len(v.e) = Len(r.reply.e) /\ BagOf(v) = BagOf(r.reply)
    [] r.cmp = "pairs" -> v.t = "arr" /\ Len(v.e) = Len(r.reply.e) /\ PairsOf(v) = PairsOf(r.reply)
    [] r.cmp = "scan"  -> /\ v.t = "arr" /\ Len(v.e) = 2 /\ v.e[1].t = "bulk" /\ v.e[2].t = "arr"
                          /\ Len(v.e[2].e) = Len(r.reply.e[2].e) /\ BagOf(v.e[2]) = BagOf(r.reply.e[2])
    [] r.cmp = "alt"   -> v = r.reply \/ v \in r.alt    \* TTL: real time runs ahead of the model clock
    [] OTHER -> TRUE
=============================================================================
