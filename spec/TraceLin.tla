------------------------------ MODULE TraceLin ------------------------------
(***************************************************************************)
(* C16: linearizability of client-side histories against RedisModel.       *)
(*                                                                         *)
(* The trace holds, per scenario, invocations (a request handed to a       *)
(* connection: "reqs"/"send" events of the driver) and responses (the      *)
(* reply bytes: "write" events), ordered by the recorder's sequence        *)
(* numbers.  Linearize(c) is a SILENT step that applies the pending        *)
(* operation of client c to the shared model keyspace at some point        *)
(* between its invocation and its response; a response is accepted only if *)
(* the operation was linearized and the reply equals the model's.  A       *)
(* scenario is accepted iff some interleaving of silent steps reaches its  *)
(* "end" event (TLC searches them all); <<"OK", sc>> is then printed.      *)
(*                                                                         *)
(* Deviation D23 (enabled only when re-checking a rejected history, to     *)
(* classify it): the framework's read-modify-write commands are executed   *)
(* as their primitive handler calls (Get ... Set), each primitive being    *)
(* atomic, so that other clients' steps may fall in between.               *)
(***************************************************************************)
EXTENDS Composite, TLC, Json
CONSTANTS TraceFile,
          Deviations,   \* {} or {"D23"}
          Diagnose
VARIABLES l, ks, pend

Trace == ndJsonDeserialize(TraceFile)
MaxConn == 8
None == [st |-> "none"]
Fresh == [c \in 0..(MaxConn - 1) |-> None]

Init == l = 1 /\ ks = EmptyKS /\ pend = Fresh

\* ---------------------------------------------------------------- atomic linearization (the property)
Linearize(c) ==
  /\ pend[c].st = "invoked"
  /\ LET r == pend[c].r
         m == Exec(ks, r.name, r.args) IN
     /\ m.cmp # "any"                                          \* histories only contain modelled commands
     /\ ks' = IF IsErrRes(m) THEN ks ELSE m.ks
     /\ pend' = [pend EXCEPT ![c] = [st |-> "done", r |-> r, m |-> m]]
  /\ UNCHANGED l

\* ---------------------------------------------------------------- deviation D23: composites as primitive steps
\* pend[c] = [st |-> "steps", p |-> operation in progress (Composite!Begin)]
StartSteps(c) ==
  /\ "D23" \in Deviations
  /\ pend[c].st = "invoked" /\ pend[c].r.name \in Composite
  /\ pend' = [pend EXCEPT ![c] = [st |-> "steps", r |-> pend[c].r, p |-> Begin(pend[c].r)]]
  /\ UNCHANGED <<l, ks>>

StepComposite(c) ==
  /\ pend[c].st = "steps"
  /\ \E res \in CSteps(ks, pend[c].p) :
        /\ ks' = res.ks
        /\ pend' = [pend EXCEPT ![c] = IF res.done THEN [st |-> "done", r |-> pend[c].r, m |-> res.m]
                                        ELSE [st |-> "steps", r |-> pend[c].r, p |-> res.p]]
  /\ UNCHANGED l

\* ---------------------------------------------------------------- events
Consume == l' = l + 1

Invoke(e) == /\ e.ev = "reqs" /\ Len(e.reqs) = 1
             /\ pend[e.c].st = "none"
             /\ pend' = [pend EXCEPT ![e.c] = [st |-> "invoked", r |-> e.reqs[1]]]
             /\ UNCHANGED ks /\ Consume

Respond(e) == /\ e.ev = "write" /\ ~e.failed
              /\ pend[e.c].st = "done"
              /\ LET d == Dec(e.b, 1) IN d.ok /\ d.next = Len(e.b) + 1 /\ ReplyMatches(pend[e.c].m, d.v)
              /\ pend' = [pend EXCEPT ![e.c] = None]
              /\ UNCHANGED ks /\ Consume

Skip(e) == /\ e.ev \in {"scenario", "open", "send", "block", "call", "callret", "close", "return", "span", "halfclose", "gate", "store", "sched"}
           /\ UNCHANGED <<ks, pend>> /\ Consume

Step == /\ l <= Len(Trace) /\ Trace[l].ev # "end"
        /\ (Invoke(Trace[l]) \/ Respond(Trace[l]) \/ Skip(Trace[l]))

Silent == /\ l <= Len(Trace) /\ Trace[l].ev # "end"
          /\ \E c \in 0..(MaxConn - 1) : Linearize(c) \/ StartSteps(c) \/ StepComposite(c)

End == /\ l <= Len(Trace) /\ Trace[l].ev = "end"
       /\ \A c \in 0..(MaxConn - 1) : pend[c].st = "none"
       /\ PrintT(<<"OK", Trace[l].sc>>)
       /\ l' = l + 1 /\ ks' = EmptyKS /\ pend' = Fresh

GiveUp == /\ ~Diagnose /\ l <= Len(Trace)
          /\ l' = Trace[l].end + 1 /\ ks' = EmptyKS /\ pend' = Fresh

DiagAt == Diagnose => PrintT(<<"AT", l>>)
Next == Step \/ Silent \/ End \/ GiveUp
Spec == Init /\ [][Next]_<<l, ks, pend>>
=============================================================================
