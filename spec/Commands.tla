------------------------------ MODULE Commands ------------------------------
(***************************************************************************)
(* The command surface of the framework as an INDEPENDENT grammar: written *)
(* from the Redis command reference and the interface comments of          *)
(* redis/handler.go, not from the executor closures.                       *)
(*                                                                         *)
(* A request is a command name (upper-cased by the driver's annotation)    *)
(* and a sequence of argument tokens.  A token is a record                 *)
(*   [k |-> kind, s |-> symbol of the bytes sent, n |-> int, big |-> sym,  *)
(*    f |-> float sym, fs |-> float sym of an int token, ex |-> BOOLEAN,   *)
(*    w |-> upper-case option word]                                        *)
(* kinds: "key" "str" (strings known by symbol, never numeric),            *)
(*        "int" (n, or big in {"max64","min64","2^31",..} for 64-bit edges),*)
(*        "float" (f), "bound" (f with optional "(" = ex), "word" (w),     *)
(*        "junk" (a non-numeric string: abc, 1x, "("),                     *)
(*        "huge" (20 decimal digits: not a 64-bit integer, but a float),   *)
(*        "null" (null bulk).                                              *)
(*                                                                         *)
(* Expect(name, args) classifies the request:                              *)
(*   [st |-> "well", calls |-> <<call>>, order |-> "seq"|"bag",            *)
(*    reply |-> "result"|"ok"|"array"]                                     *)
(*   [st |-> "ill"]      must be answered by an error reply, no handler    *)
(*                       call (C10)                                        *)
(*   [st |-> "unspec"]   neither well-formed nor one of the ill-formed     *)
(*                       kinds the property lists: only framing applies    *)
(* A call is [m |-> method, a |-> <<argument records>>, opt |-> record],   *)
(* exactly the shape the handler double logs.                              *)
(***************************************************************************)
EXTENDS Integers, Sequences, FiniteSets

IsNull(t)  == t.k = "null"
IsStrTok(t) == t.k # "null"                   \* any non-null token can be a string argument
IsIntTok(t) == t.k = "int"                    \* 64-bit integers only
IsFloatTok(t) == t.k \in {"int", "float"}     \* every integer literal is a float literal
IsBoundTok(t) == t.k \in {"int", "float", "bound"}
IsWord(t, ws) == t.k = "word" /\ t.w \in ws

\* argument records as the handler double logs them
S(t) == [s |-> t.s]
N(t) == IF t.big = "" THEN [n |-> t.n] ELSE [big |-> t.big]
Num(i) == [n |-> i]
F(t) == [f |-> IF t.k = "int" THEN t.fs ELSE t.f]    \* fs: the float symbol of an integer token (its decimal text)
L(ts) == [l |-> [i \in 1..Len(ts) |-> S(ts[i])]]

IntVal(t) == t.n            \* only meaningful when t.big = ""
IsSmall(t) == t.big = ""

Well(calls, order, reply) == [st |-> "well", calls |-> calls, order |-> order, reply |-> reply]
Ill    == [st |-> "ill"]
Unspec == [st |-> "unspec"]
NoOpt  == [none |-> TRUE]        \* "no options" as the handler double logs it

AnyNull(ts) == \E i \in 1..Len(ts) : IsNull(ts[i])

---------------------------------------------------------------------------
(* positional part: kinds per position                                     *)
PosOK(kind, t) == CASE kind = "str"   -> IsStrTok(t)
                    [] kind = "int"   -> IsIntTok(t)
                    [] kind = "float" -> IsFloatTok(t)
                    [] kind = "bound" -> IsBoundTok(t)

\* "ill" if a required position is missing, null or lexically wrong
\* (a 20-digit number at a float position is a float whose value the harness cannot name: unspecified there)
IsHuge(t) == t.k = "huge"
PosState(pos, args) ==
  IF Len(args) < Len(pos) THEN "ill"
  ELSE IF \E i \in 1..Len(pos) : IsNull(args[i]) \/ (~PosOK(pos[i], args[i]) /\ ~(IsHuge(args[i]) /\ pos[i] \in {"float", "bound"})) THEN "ill"
  ELSE IF \E i \in 1..Len(pos) : IsHuge(args[i]) /\ pos[i] \in {"float", "bound"} THEN "unspec"
  ELSE "ok"

Rest(pos, args) == SubSeq(args, Len(pos) + 1, Len(args))

---------------------------------------------------------------------------
(* tails                                                                   *)

\* one or more strings
Strs1(ts) == IF ts = <<>> \/ AnyNull(ts) THEN "ill" ELSE "ok"

\* one or more key/value pairs; last value given for a key wins
Pairs1(ts) == IF ts = <<>> \/ AnyNull(ts) \/ Len(ts) % 2 = 1 THEN "ill" ELSE "ok"
PairKeys(ts) == {ts[2 * i - 1].s : i \in 1..(Len(ts) \div 2)}
LastVal(ts, key) == LET idx == {i \in 1..(Len(ts) \div 2) : ts[2 * i - 1].s = key}
                        last == CHOOSE i \in idx : \A j \in idx : j <= i IN ts[2 * last]
SetToSeq(ss) == LET RECURSIVE Go(_) Go(x) == IF x = {} THEN <<>> ELSE LET e == CHOOSE y \in x : TRUE IN <<e>> \o Go(x \ {e}) IN Go(ss)

\* SET options, any order.  Result: [st, NX, XX, KEEPTTL, GET, kind, val]
SetOptWords == {"NX", "XX", "KEEPTTL", "GET", "EX", "PX", "EXAT", "PXAT"}
RECURSIVE SetOpts(_, _, _)
SetOpts(ts, i, acc) ==
  IF i > Len(ts) THEN acc
  ELSE LET t == ts[i] IN
    IF IsNull(t) THEN [acc EXCEPT !.st = "ill"]
    ELSE IF ~IsWord(t, SetOptWords) THEN [acc EXCEPT !.st = IF acc.st = "ill" THEN "ill" ELSE "unspec"]
    ELSE IF t.w \in {"NX", "XX"} THEN
      IF acc.NX \/ acc.XX THEN [acc EXCEPT !.st = "ill"]                    \* repeated or combined NX/XX
      ELSE SetOpts(ts, i + 1, IF t.w = "NX" THEN [acc EXCEPT !.NX = TRUE] ELSE [acc EXCEPT !.XX = TRUE])
    ELSE IF t.w = "KEEPTTL" THEN
      IF acc.KEEPTTL \/ acc.kind # "" THEN [acc EXCEPT !.st = IF acc.st = "ill" THEN "ill" ELSE "unspec"]
      ELSE SetOpts(ts, i + 1, [acc EXCEPT !.KEEPTTL = TRUE])
    ELSE IF t.w = "GET" THEN
      IF acc.GET THEN [acc EXCEPT !.st = IF acc.st = "ill" THEN "ill" ELSE "unspec"]
      ELSE SetOpts(ts, i + 1, [acc EXCEPT !.GET = TRUE])
    ELSE \* EX PX EXAT PXAT
      IF acc.kind # "" THEN [acc EXCEPT !.st = "ill"]                      \* two expiry options / repeated
      ELSE IF i + 1 > Len(ts) THEN [acc EXCEPT !.st = "ill"]               \* option without value
      ELSE LET v == ts[i + 1] IN
        IF IsNull(v) \/ ~IsIntTok(v) THEN [acc EXCEPT !.st = "ill"]
        ELSE IF IsSmall(v) /\ IntVal(v) <= 0 THEN [acc EXCEPT !.st = "ill"]   \* non-positive expiry
        ELSE IF ~IsSmall(v) THEN [acc EXCEPT !.st = IF v.big \in {"min64"} THEN "ill" ELSE "unspec"]
        ELSE IF acc.KEEPTTL THEN [acc EXCEPT !.st = "unspec"]
        ELSE SetOpts(ts, i + 2, [acc EXCEPT !.kind = t.w, !.val = IntVal(v)])
SetOpt0 == [st |-> "ok", NX |-> FALSE, XX |-> FALSE, KEEPTTL |-> FALSE, GET |-> FALSE, kind |-> "", val |-> 0]

SetOptRec(o) == [NX |-> o.NX, XX |-> o.XX, KEEPTTL |-> o.KEEPTTL, GET |-> o.GET,
                 EX_ms   |-> Num(IF o.kind = "EX" THEN o.val * 1000 ELSE 0),
                 PX_ms   |-> Num(IF o.kind = "PX" THEN o.val ELSE 0),
                 EXAT    |-> Num(IF o.kind = "EXAT" THEN o.val ELSE 0),
                 PXAT_ms |-> Num(IF o.kind = "PXAT" THEN o.val ELSE 0)]
PlainSetOpt == SetOptRec(SetOpt0)

\* ZADD: flags, then one or more score/member pairs
ZFlags == {"NX", "XX", "GT", "LT", "CH", "INCR"}
RECURSIVE ZFlagEnd(_, _)
ZFlagEnd(ts, i) == IF i <= Len(ts) /\ IsWord(ts[i], ZFlags) THEN ZFlagEnd(ts, i + 1) ELSE i
ZAddParse(ts) ==
  LET j == ZFlagEnd(ts, 1)
      flags == {ts[i].w : i \in 1..(j - 1)}
      ps == SubSeq(ts, j, Len(ts))
      np == Len(ps) \div 2 IN
  IF AnyNull(ts) THEN [st |-> "ill"]
  ELSE IF ps = <<>> THEN [st |-> "ill"]                                     \* no score/member at all
  ELSE IF Len(ps) % 2 = 1 THEN [st |-> "ill"]                               \* dangling half
  ELSE IF \E i \in 1..np : ~IsFloatTok(ps[2 * i - 1]) /\ ~IsHuge(ps[2 * i - 1]) THEN [st |-> "ill"]    \* non-numeric score
  ELSE IF \E i \in 1..np : IsHuge(ps[2 * i - 1]) THEN [st |-> "unspec"]
  ELSE IF Cardinality(flags) # j - 1 THEN [st |-> "unspec"]                 \* repeated flag
  ELSE IF {"NX", "XX"} \subseteq flags \/ {"GT", "LT"} \subseteq flags \/ ("NX" \in flags /\ flags \cap {"GT", "LT"} # {})
          \/ ("INCR" \in flags /\ np > 1) THEN [st |-> "unspec"]
  ELSE [st |-> "ok",
        opt |-> [XX |-> "XX" \in flags, NX |-> "NX" \in flags, LT |-> "LT" \in flags, GT |-> "GT" \in flags,
                 CH |-> "CH" \in flags, INCR |-> "INCR" \in flags],
        members |-> [l |-> [i \in 1..np |-> [f |-> F(ps[2 * i - 1]).f, s |-> ps[2 * i].s]]]]

\* ZRANGE / ZRANGEBYSCORE options
RECURSIVE ZRangeOpts(_, _, _, _)
ZRangeOpts(ts, i, acc, allowed) ==
  IF i > Len(ts) THEN acc
  ELSE LET t == ts[i] IN
    IF IsNull(t) THEN [acc EXCEPT !.st = "ill"]
    ELSE IF ~IsWord(t, allowed) THEN [acc EXCEPT !.st = "unspec"]
    ELSE IF t.w = "LIMIT" THEN
      IF acc.limit THEN [acc EXCEPT !.st = "unspec"]
      ELSE IF i + 2 > Len(ts) THEN [acc EXCEPT !.st = "unspec"]
      ELSE IF IsNull(ts[i + 1]) \/ IsNull(ts[i + 2]) \/ ~IsIntTok(ts[i + 1]) \/ ~IsIntTok(ts[i + 2]) THEN [acc EXCEPT !.st = "ill"]
      ELSE IF ~IsSmall(ts[i + 1]) \/ ~IsSmall(ts[i + 2]) THEN [acc EXCEPT !.st = "unspec"]
      ELSE ZRangeOpts(ts, i + 3, [acc EXCEPT !.limit = TRUE, !.off = IntVal(ts[i + 1]), !.cnt = IntVal(ts[i + 2])], allowed)
    ELSE IF acc[t.w] THEN [acc EXCEPT !.st = "unspec"]
    ELSE ZRangeOpts(ts, i + 1, [acc EXCEPT ![t.w] = TRUE], allowed)
ZR0 == [st |-> "ok", BYSCORE |-> FALSE, BYLEX |-> FALSE, REV |-> FALSE, WITHSCORES |-> FALSE, limit |-> FALSE, off |-> 0, cnt |-> 0 - 1]
ZOptRec(o, byscore, minex, maxex) ==
  [BYSCORE |-> byscore, BYLEX |-> FALSE, REV |-> o.REV, WITHSCORES |-> o.WITHSCORES, MINEX |-> minex, MAXEX |-> maxex,
   Offset |-> Num(o.off), Count |-> Num(o.cnt)]

\* SCAN options
RECURSIVE ScanOpts(_, _, _)
ScanOpts(ts, i, acc) ==
  IF i > Len(ts) THEN acc
  ELSE LET t == ts[i] IN
    IF IsNull(t) THEN [acc EXCEPT !.st = "ill"]
    ELSE IF ~IsWord(t, {"MATCH", "COUNT"}) THEN [acc EXCEPT !.st = "unspec"]
    ELSE IF i + 1 > Len(ts) THEN [acc EXCEPT !.st = "unspec"]
    ELSE IF IsNull(ts[i + 1]) THEN [acc EXCEPT !.st = "ill"]
    ELSE IF t.w = "MATCH" THEN
      IF acc.hasmatch THEN [acc EXCEPT !.st = "unspec"] ELSE ScanOpts(ts, i + 2, [acc EXCEPT !.match = ts[i + 1], !.hasmatch = TRUE])
    ELSE IF ~IsIntTok(ts[i + 1]) THEN [acc EXCEPT !.st = "ill"]
    ELSE IF ~IsSmall(ts[i + 1]) \/ acc.hascount THEN [acc EXCEPT !.st = "unspec"]
    ELSE ScanOpts(ts, i + 2, [acc EXCEPT !.count = IntVal(ts[i + 1]), !.hascount = TRUE])
Scan0 == [st |-> "ok", match |-> [k |-> "default"], hasmatch |-> FALSE, count |-> 10, hascount |-> FALSE]

---------------------------------------------------------------------------
Call(m, a, opt) == [m |-> m, a |-> a, opt |-> opt]
One(m, a, opt) == Well(<<Call(m, a, opt)>>, "seq", "result")

\* an integer bound token names the same number as its float symbol
BoundIsInt(t) == t.k = "int"

Simple == [  \* name |-> <<method, positional kinds>> for commands that are method(positionals...)
  KEYS |-> <<"Keys", <<"str">>>>, TYPE |-> <<"Type", <<"str">>>>, TTL |-> <<"TTL", <<"str">>>>,
  GET |-> <<"Get", <<"str">>>>, HGET |-> <<"HGet", <<"str", "str">>>>, HGETALL |-> <<"HGetAll", <<"str">>>>,
  LINDEX |-> <<"LIndex", <<"str", "int">>>>, LLEN |-> <<"LLen", <<"str">>>>, LRANGE |-> <<"LRange", <<"str", "int", "int">>>>,
  SMEMBERS |-> <<"SMembers", <<"str">>>>, ZSCORE |-> <<"ZScore", <<"str", "str">>>>,
  ZINCRBY |-> <<"ZIncBy", <<"str", "float", "str">>>> ]

ArgRec(kind, t) == CASE kind = "str" -> S(t) [] kind = "int" -> N(t) [] kind = "float" -> F(t)

\* commands of shape  NAME key? string+  ->  method(key?, list)
ListCmds == [
  DEL |-> <<"Del", <<>>, "none">>, EXISTS |-> <<"Exists", <<>>, "none">>,
  HDEL |-> <<"HDel", <<"str">>, "none">>, SADD |-> <<"SAdd", <<"str">>, "none">>, SREM |-> <<"SRem", <<"str">>, "none">>,
  ZREM |-> <<"ZRem", <<"str">>, "none">>,
  LPUSH |-> <<"LPush", <<"str">>, "false">>, RPUSH |-> <<"RPush", <<"str">>, "false">>,
  LPUSHX |-> <<"LPush", <<"str">>, "true">>, RPUSHX |-> <<"RPush", <<"str">>, "true">> ]

HandlerCommands == DOMAIN Simple \cup DOMAIN ListCmds \cup
  {"EXPIRE", "EXPIREAT", "RENAME", "RENAMENX", "SCAN", "SET", "SETEX", "GETSET", "SETNX", "MSET", "MGET",
   "HSET", "HSETNX", "HMSET", "HMGET", "LPOP", "RPOP", "ZADD", "ZRANGE", "ZRANGEBYSCORE"}

\* answered by the framework itself or derived from primitives (judged by C12 against RedisModel)
FrameworkCommands == {"PING", "ECHO", "SELECT", "QUIT", "CONFIG", "AUTH"}
DerivedCommands == {"MSETNX", "APPEND", "INCR", "DECR", "INCRBY", "DECRBY", "STRLEN", "GETRANGE", "SUBSTR", "HEXISTS", "HKEYS",
                    "HVALS", "HLEN", "HSTRLEN", "SCARD", "SISMEMBER", "ZCARD", "ZREVRANGE", "ZREVRANGEBYSCORE"}
Registered == HandlerCommands \cup FrameworkCommands \cup DerivedCommands

\* argument shapes of the derived commands (their replies are judged against RedisModel by C12; here only
\* well-/ill-formedness: an ill-formed one is answered by an error and touches no primitive)
DerivedPos == [
  APPEND |-> <<"str", "str">>, INCR |-> <<"str">>, DECR |-> <<"str">>, INCRBY |-> <<"str", "int">>, DECRBY |-> <<"str", "int">>,
  STRLEN |-> <<"str">>, GETRANGE |-> <<"str", "int", "int">>, SUBSTR |-> <<"str", "int", "int">>,
  HEXISTS |-> <<"str", "str">>, HKEYS |-> <<"str">>, HVALS |-> <<"str">>, HLEN |-> <<"str">>, HSTRLEN |-> <<"str", "str">>,
  SCARD |-> <<"str">>, SISMEMBER |-> <<"str", "str">>, ZCARD |-> <<"str">>,
  ZREVRANGE |-> <<"str", "int", "int">>, ZREVRANGEBYSCORE |-> <<"str", "bound", "bound">> ]

DerivedState(name, args) ==
  IF name = "MSETNX" THEN (IF Pairs1(args) = "ill" THEN "ill" ELSE "well")
  ELSE LET pos == DerivedPos[name] rest == Rest(pos, args) IN
    IF PosState(pos, args) = "ill" THEN "ill"
    ELSE IF PosState(pos, args) = "unspec" THEN "unspec"
    ELSE IF rest = <<>> THEN "well"
    ELSE IF name \in {"ZREVRANGE", "ZREVRANGEBYSCORE"} THEN
      (IF AnyNull(rest) THEN "ill"
       ELSE IF Len(rest) = 1 /\ IsWord(rest[1], {"WITHSCORES"}) THEN "well"
       ELSE "unspec")
    ELSE "unspec"

Expect(name, args) ==
  IF name \in DOMAIN Simple THEN
    LET m == Simple[name][1] pos == Simple[name][2] IN
    IF PosState(pos, args) = "ill" THEN Ill ELSE IF PosState(pos, args) = "unspec" THEN Unspec
    ELSE IF Len(args) > Len(pos) THEN Unspec
    ELSE One(m, [i \in 1..Len(pos) |-> ArgRec(pos[i], args[i])], NoOpt)
  ELSE IF name \in DOMAIN ListCmds THEN
    LET m == ListCmds[name][1] pos == ListCmds[name][2] o == ListCmds[name][3]
        rest == Rest(pos, args) IN
    IF PosState(pos, args) = "ill" \/ Strs1(rest) = "ill" THEN Ill
    ELSE One(m, [i \in 1..Len(pos) |-> S(args[i])] \o <<L(rest)>>, IF o = "none" THEN NoOpt ELSE [X |-> o = "true"])
  ELSE CASE
    name \in {"EXPIRE", "EXPIREAT"} ->
      LET pos == <<"str", "int">> rest == Rest(pos, args) IN
      IF PosState(pos, args) = "ill" THEN Ill ELSE IF PosState(pos, args) = "unspec" THEN Unspec
      ELSE IF Len(rest) > 1 \/ ~IsSmall(args[2]) THEN Unspec
      ELSE IF rest # <<>> /\ IsNull(rest[1]) THEN Ill
      ELSE IF rest # <<>> /\ ~IsWord(rest[1], {"NX", "XX", "GT", "LT"}) THEN Unspec
      ELSE LET fl == IF rest = <<>> THEN "" ELSE rest[1].w IN
        One("Expire", <<S(args[1])>>,
            [NX |-> fl = "NX", XX |-> fl = "XX", GT |-> fl = "GT", LT |-> fl = "LT",
             when |-> [abs |-> name = "EXPIREAT", t |-> IntVal(args[2])]])
    [] name \in {"RENAME", "RENAMENX"} ->
      LET pos == <<"str", "str">> IN
      IF PosState(pos, args) = "ill" THEN Ill ELSE IF PosState(pos, args) = "unspec" THEN Unspec
      ELSE IF Len(args) > 2 THEN Unspec
      ELSE One("Rename", <<S(args[1]), S(args[2])>>, [NX |-> name = "RENAMENX"])
    [] name = "SCAN" ->
      LET pos == <<"int">> IN
      IF PosState(pos, args) = "ill" THEN Ill ELSE IF PosState(pos, args) = "unspec" THEN Unspec
      ELSE LET o == ScanOpts(Rest(pos, args), 1, Scan0) IN
        IF o.st = "ill" THEN Ill ELSE IF o.st = "unspec" \/ ~IsSmall(args[1]) THEN Unspec
        ELSE One("Scan", <<N(args[1])>>, [Count |-> Num(o.count), Type |-> 0, pattern |-> o.match])   \* pattern: the MATCH token, or "" for the default "*"
    [] name = "SET" ->
      LET pos == <<"str", "str">> IN
      IF PosState(pos, args) = "ill" THEN Ill ELSE IF PosState(pos, args) = "unspec" THEN Unspec
      ELSE LET o == SetOpts(Rest(pos, args), 1, SetOpt0) IN
        IF o.st = "ill" THEN Ill ELSE IF o.st = "unspec" THEN Unspec
        ELSE One("Set", <<S(args[1]), S(args[2])>>, SetOptRec(o))
    [] name = "SETEX" ->
      LET pos == <<"str", "int", "str">> IN
      IF PosState(pos, args) = "ill" THEN Ill ELSE IF PosState(pos, args) = "unspec" THEN Unspec
      ELSE IF IsSmall(args[2]) /\ IntVal(args[2]) <= 0 THEN Ill
      ELSE IF ~IsSmall(args[2]) \/ Len(args) > 3 THEN Unspec
      ELSE One("Set", <<S(args[1]), S(args[3])>>, SetOptRec([SetOpt0 EXCEPT !.kind = "EX", !.val = IntVal(args[2])]))
    [] name \in {"GETSET", "SETNX"} ->
      LET pos == <<"str", "str">> IN
      IF PosState(pos, args) = "ill" THEN Ill ELSE IF PosState(pos, args) = "unspec" THEN Unspec
      ELSE IF Len(args) > 2 THEN Unspec
      ELSE One("Set", <<S(args[1]), S(args[2])>>,
               SetOptRec(IF name = "GETSET" THEN [SetOpt0 EXCEPT !.GET = TRUE] ELSE [SetOpt0 EXCEPT !.NX = TRUE]))
    [] name = "MSET" ->
      IF Pairs1(args) = "ill" THEN Ill
      ELSE Well([i \in 1..Cardinality(PairKeys(args)) |->
                   LET key == SetToSeq(PairKeys(args))[i] IN Call("Set", <<[s |-> key], S(LastVal(args, key))>>, PlainSetOpt)],
                "bag", "ok")
    [] name = "MGET" ->
      IF Strs1(args) = "ill" THEN Ill
      ELSE Well([i \in 1..Len(args) |-> Call("Get", <<S(args[i])>>, NoOpt)], "seq", "array")
    [] name \in {"HSET", "HSETNX"} ->
      LET pos == <<"str", "str", "str">> IN
      IF PosState(pos, args) = "ill" THEN Ill ELSE IF PosState(pos, args) = "unspec" THEN Unspec
      ELSE IF Len(args) > 3 THEN Unspec
      ELSE One("HSet", <<S(args[1]), S(args[2]), S(args[3])>>, [NX |-> name = "HSETNX"])
    [] name = "HMSET" ->
      LET pos == <<"str">> rest == Rest(pos, args) IN
      IF PosState(pos, args) = "ill" \/ Pairs1(rest) = "ill" THEN Ill
      ELSE Well([i \in 1..Cardinality(PairKeys(rest)) |->
                   LET f == SetToSeq(PairKeys(rest))[i] IN Call("HSet", <<S(args[1]), [s |-> f], S(LastVal(rest, f))>>, [NX |-> FALSE])],
                "bag", "ok")
    [] name = "HMGET" ->
      LET pos == <<"str">> rest == Rest(pos, args) IN
      IF PosState(pos, args) = "ill" \/ Strs1(rest) = "ill" THEN Ill
      ELSE Well([i \in 1..Len(rest) |-> Call("HGet", <<S(args[1]), S(rest[i])>>, NoOpt)], "seq", "array")
    [] name \in {"LPOP", "RPOP"} ->
      LET pos == <<"str">> rest == Rest(pos, args) m == IF name = "LPOP" THEN "LPop" ELSE "RPop" IN
      IF PosState(pos, args) = "ill" THEN Ill ELSE IF PosState(pos, args) = "unspec" THEN Unspec
      ELSE IF rest = <<>> THEN One(m, <<S(args[1]), Num(1)>>, NoOpt)
      ELSE IF IsNull(rest[1]) \/ ~IsIntTok(rest[1]) THEN Ill
      ELSE IF Len(rest) > 1 \/ ~IsSmall(rest[1]) \/ IntVal(rest[1]) < 0 THEN Unspec
      ELSE One(m, <<S(args[1]), N(rest[1])>>, NoOpt)
    [] name = "ZADD" ->
      LET pos == <<"str">> IN
      IF PosState(pos, args) = "ill" THEN Ill ELSE IF PosState(pos, args) = "unspec" THEN Unspec
      ELSE LET z == ZAddParse(Rest(pos, args)) IN
        IF z.st = "ill" THEN Ill ELSE IF z.st = "unspec" THEN Unspec
        ELSE One("ZAdd", <<S(args[1]), z.members>>, z.opt)
    [] name = "ZRANGE" ->
      LET pos == <<"str", "bound", "bound">> IN
      IF PosState(pos, args) = "ill" THEN Ill ELSE IF PosState(pos, args) = "unspec" THEN Unspec
      ELSE LET o == ZRangeOpts(Rest(pos, args), 1, ZR0, {"BYSCORE", "REV", "LIMIT", "WITHSCORES", "BYLEX"}) IN
        IF o.st = "ill" THEN Ill
        ELSE IF o.st = "unspec" \/ o.BYLEX THEN Unspec
        ELSE IF o.BYSCORE THEN
          One("ZRangeByScore", <<S(args[1]), F(args[2]), F(args[3])>>,
              ZOptRec(o, TRUE, args[2].k = "bound" /\ args[2].ex, args[3].k = "bound" /\ args[3].ex))
        ELSE IF ~BoundIsInt(args[2]) \/ ~BoundIsInt(args[3]) THEN Ill       \* rank bounds must be integers
        ELSE IF o.limit \/ ~IsSmall(args[2]) \/ ~IsSmall(args[3]) THEN Unspec
        ELSE One("ZRange", <<S(args[1]), N(args[2]), N(args[3])>>, ZOptRec(o, FALSE, FALSE, FALSE))
    [] name = "ZRANGEBYSCORE" ->
      LET pos == <<"str", "bound", "bound">> IN
      IF PosState(pos, args) = "ill" THEN Ill ELSE IF PosState(pos, args) = "unspec" THEN Unspec
      ELSE LET o == ZRangeOpts(Rest(pos, args), 1, ZR0, {"LIMIT", "WITHSCORES"}) IN
        IF o.st = "ill" THEN Ill ELSE IF o.st = "unspec" THEN Unspec
        ELSE One("ZRangeByScore", <<S(args[1]), F(args[2]), F(args[3])>>,
                 ZOptRec(o, FALSE, args[2].k = "bound" /\ args[2].ex, args[3].k = "bound" /\ args[3].ex))
    [] OTHER -> Unspec
=============================================================================
