------------------------------ MODULE TLSGate ------------------------------
(***************************************************************************)
(* C09: the client-certificate gate of the TLS port and the containment of *)
(* failed handshakes, as a policy over finite sets.                        *)
(*                                                                         *)
(* A client is [cred, fault].  cred:                                       *)
(*   "plain"        plain-text bytes on the TLS port                       *)
(*   "nocert"       TLS without a client certificate                       *)
(*   "selfsigned"   self-signed certificate carrying the right name        *)
(*   "foreignca"    right name, signed by another CA                       *)
(*   "expired"      right CA, right name, expired                          *)
(*   "wrongname"    right CA, another common name                          *)
(*   "intermediate" leaf with another name, issued by an intermediate CA   *)
(*                  (under the configured root) that carries the right name*)
(*   "ok"           right CA, right name                                   *)
(*   "namecase" "nameprefix" "namesuffix" "namesan"  right CA, a name that *)
(*                  differs from the rule's only in letter case / extends  *)
(*                  it / ends in it / carries it only as a DNS SAN         *)
(*   "notyet"       right CA, right name, not valid yet                    *)
(* fault: "none" | "abort" (close after ClientHello) | "stall" (stop after *)
(* ClientHello and hold the socket) | "garbage" (non-TLS record).          *)
(* config: rule (a common-name rule is configured), pass (a password too). *)
(***************************************************************************)
EXTENDS Integers, Sequences, FiniteSets, TLC

Creds  == {"plain", "nocert", "selfsigned", "foreignca", "expired", "wrongname", "intermediate", "ok",
           "namecase", "nameprefix", "namesuffix", "namesan", "notyet"}
Faults == {"none", "abort", "stall", "garbage", "flood"}      \* flood: hundreds of silent connections at once, then gone

ChainsToCA(cred) == cred \in {"wrongname", "intermediate", "ok", "namecase", "nameprefix", "namesuffix", "namesan"}   \* and is valid now
LeafHasName(cred) == cred \in {"ok", "selfsigned", "foreignca", "expired", "notyet"}

\* may commands of this client be executed at all?
Admitted(cred, fault, rule) == fault = "none" /\ ChainsToCA(cred) /\ (rule => LeafHasName(cred))

\* Observed outcome of one client: handshake completed, number of handler calls, PING answered (after AUTH if a password is set)
ClientOK(c, cfg) ==
  /\ c.preauth_calls = 0                                  \* with a password configured nothing is executed before AUTH (C08)
  /\ IF Admitted(c.cred, c.fault, cfg.rule)
     THEN c.hs /\ c.calls >= 1 /\ c.served              \* a legitimate client is served
     ELSE /\ c.calls = 0 /\ ~c.served                    \* nobody else has a command executed
          /\ (c.fault # "stall" => c.disconnected)       \* ... and is disconnected

\* The application configured TLS itself and does not have client certificates verified ("anycert", "request"): who passes
\* the handshake is its decision.  What remains: the common-name rule still reads the client's own certificate, nothing is
\* executed before AUTH, and - ContainedOK below - whatever a client presents, the server goes on serving the others.
ClientOKCustom(c, cfg) ==
  /\ c.preauth_calls = 0
  /\ (cfg.rule /\ c.served => c.cred # "nocert" /\ LeafHasName(c.cred))
  /\ (~c.served => c.calls = 0)

\* after ANY client, both listeners still serve well-behaved clients
ContainedOK(p) == p.tlsok /\ p.plainok
=============================================================================
