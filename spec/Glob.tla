------------------------------- MODULE Glob -------------------------------
(* Redis key patterns as the property states them: '*' any (possibly empty) *)
(* sequence, '?' exactly one character, every other character only itself,   *)
(* anchored over the whole key.  Patterns and keys are byte sequences.       *)
EXTENDS Integers, Sequences

STARB == 42
QMARK == 63

\* the definition, as the property words it (backtracking over every '*': exponential on patterns with many '*')
RECURSIVE MatchAt(_, _, _, _)
MatchAt(p, i, k, j) ==
  IF i > Len(p) THEN j > Len(k)
  ELSE IF p[i] = STARB THEN MatchAt(p, i + 1, k, j) \/ (j <= Len(k) /\ MatchAt(p, i, k, j + 1))
  ELSE IF j > Len(k) THEN FALSE
  ELSE IF p[i] = QMARK THEN MatchAt(p, i + 1, k, j + 1)
  ELSE p[i] = k[j] /\ MatchAt(p, i + 1, k, j + 1)

MatchRec(p, k) == MatchAt(p, 1, k, 1)

\* the same relation computed pattern character by pattern character over the SET of key positions reached so far
\* (polynomial; MC_C17 checks Match = MatchRec on the whole bounded universe).  The trace specifications use this one, so
\* that a pattern such as *a*a*a...*b against a long key costs the specification nothing.
RECURSIVE Reach(_, _, _, _)
Reach(p, i, k, S) ==
  IF i > Len(p) \/ S = {} THEN S
  ELSE LET c == p[i]
           T == IF c = STARB THEN {j \in 1..(Len(k) + 1) : \E s \in S : s <= j}
                ELSE IF c = QMARK THEN {s + 1 : s \in {t \in S : t <= Len(k)}}
                ELSE {s + 1 : s \in {t \in S : t <= Len(k) /\ k[t] = c}}
       IN Reach(p, i + 1, k, T)

Match(p, k) == (Len(k) + 1) \in Reach(p, 1, k, {1})
=============================================================================
