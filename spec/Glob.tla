------------------------------- MODULE Glob -------------------------------
(* Redis key patterns as the property states them: '*' any (possibly empty) *)
(* sequence, '?' exactly one character, every other character only itself,   *)
(* anchored over the whole key.  Patterns and keys are byte sequences.       *)
EXTENDS Integers, Sequences

STARB == 42
QMARK == 63

RECURSIVE MatchAt(_, _, _, _)
MatchAt(p, i, k, j) ==
  IF i > Len(p) THEN j > Len(k)
  ELSE IF p[i] = STARB THEN MatchAt(p, i + 1, k, j) \/ (j <= Len(k) /\ MatchAt(p, i, k, j + 1))
  ELSE IF j > Len(k) THEN FALSE
  ELSE IF p[i] = QMARK THEN MatchAt(p, i + 1, k, j + 1)
  ELSE p[i] = k[j] /\ MatchAt(p, i + 1, k, j + 1)

Match(p, k) == MatchAt(p, 1, k, 1)
=============================================================================
