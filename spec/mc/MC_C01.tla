------------------------------ MODULE MC_C01 ------------------------------
(* C01, design level + scenario generation: every value tree of the bounded  *)
(* space round-trips through RESP!Enc / RESP!Dec, Enc is injective on it     *)
(* (implied by the round trip), and each tree is exported with its canonical *)
(* encoding for replay into the real serializer/parser.                      *)
EXTENDS RESP, TLC, Json
CONSTANTS LineAlpha,   \* bytes allowed in status/error payloads (no CR/LF)
          BulkAlpha,   \* bytes allowed in bulk payloads (CR, LF, NUL, type bytes included)
          MaxPayload, MaxArity, Deep
VARIABLE v

Seqs(S, n) == UNION {[1..k -> S] : k \in 0..n}

IntPayloads == {<<48>>, <<49>>, <<MINUS, 49>>, <<49, 48>>, <<MINUS, 49, 48>>, <<57, 57>>}

Leaves == {Str(p) : p \in Seqs(LineAlpha, MaxPayload)}
     \cup {Err(p) : p \in Seqs(LineAlpha, MaxPayload)}
     \cup {IntV(p) : p \in IntPayloads}
     \cup {Bulk(p) : p \in Seqs(BulkAlpha, MaxPayload)}
     \cup {Null}

\* depth-1 arrays over all leaves
Flat == {Arr(e) : e \in Seqs(Leaves, MaxArity)}

\* deeper nesting over a reduced leaf set
Few  == {Bulk(<<97>>), Bulk(<<CR, LF>>), Null, IntV(<<49>>), Str(<<>>)}
Lvl1 == {Arr(e) : e \in Seqs(Few, 2)}
Lvl2 == {Arr(e) : e \in Seqs(Few \cup Lvl1, 2)}
Lvl3 == IF Deep THEN {Arr(e) : e \in Seqs({Bulk(<<97>>), Arr(<<>>)} \cup {Arr(<<x>>) : x \in Lvl1}, 3)} ELSE {}

Trees == Leaves \cup Flat \cup Lvl2 \cup Lvl3

Init == v \in Trees
Next == UNCHANGED v
Spec == Init /\ [][Next]_v

RoundTrip == LET b == Enc(v)
                 r == Dec(b, 1) IN
             /\ WellFormed(v)
             /\ r.ok /\ r.v = v /\ r.next = Len(b) + 1
             /\ DecStream(b) = [vals |-> <<v>>, st |-> "complete", at |-> Len(b) + 1, from |-> Len(b) + 1]
             /\ Enc(r.v) = b

\* the bulk length prefix equals the payload length, whatever the payload holds
BulkPrefix == v.t = "bulk" =>
                LET b == Enc(v) r == DecLine(b, 2) IN
                r.ok /\ r.v = NatDigits(Len(v.p)) /\ Len(b) = 1 + Len(r.v) + 2 + Len(v.p) + 2

Export == PrintT(<<"SCENARIO", ToJson([v |-> v, enc |-> Enc(v)])>>)
=============================================================================
