SPECIFICATION MCSpec
CONSTANTS
  Streams <- AllStrings
  MaxDeclared = 1000
  Alphabet = {42, 36, 43, 45, 49, 57, 13, 10}
  MaxLen = 4
  MaxMut = 1
  BaseCount = 8
INVARIANTS PrefixOK DoneOK NoSpuriousError Total SoundOnValid Progress
CHECK_DEADLOCK FALSE
