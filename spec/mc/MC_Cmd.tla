------------------------------ MODULE MC_Cmd ------------------------------
(***************************************************************************)
(* Argument-vector generator over the command grammar (Commands.tla).      *)
(* For every command: the product of small per-position pools (valid,      *)
(* null, non-numeric, overflowing, fractional tokens), every truncation of *)
(* the positional part, and ALL token sequences up to a bound over the     *)
(* command's tail pool (options, lists, pairs).  Generation is dumb on     *)
(* purpose: each vector is then CLASSIFIED by Commands!Expect as           *)
(* well-formed / ill-formed / unspecified, which is what C03, C05, C10,    *)
(* C07 and C20 consume.  Every vector is exported for replay.              *)
(***************************************************************************)
EXTENDS Commands, TLC, Json
CONSTANTS TailMax,      \* bound on the tail length for option-rich commands (SET ZADD ZRANGE ...)
          Rich,         \* TRUE: richer string/integer pools and letter-case variants (C05 thorough)
          Only,         \* {} = every command, else the set of command names to generate
          Keep          \* {} = export every vector, else only those whose class is in Keep (e.g. {"well"})
VARIABLES name, args

T(k, s) == [k |-> k, s |-> s, n |-> 0, big |-> "", f |-> "", fs |-> "", ex |-> FALSE, w |-> "", cs |-> ""]
K(s)    == T("key", s)
V(s)    == T("str", s)
J(s)    == T("junk", s)
I(n)    == [T("int", "") EXCEPT !.n = n]
BIG(b)  == [T("int", "") EXCEPT !.big = b]
FL(f)   == [T("float", "") EXCEPT !.f = f]
B(f, ex) == [T("bound", "") EXCEPT !.f = f, !.ex = ex]
W(w)    == [T("word", "") EXCEPT !.w = w]
WC(w, c) == [T("word", "") EXCEPT !.w = w, !.cs = c]
NULL    == T("null", "")
HUGE    == T("huge", "w:huge")

Seqs(Q, n) == UNION {[1..k -> Q] : k \in 0..n}
Prefixes(v) == {SubSeq(v, 1, k) : k \in 0..(Len(v) - 1)}

\* per-kind pools for positional arguments: one or two valid tokens plus every ill-formed kind
StrPool(i) == IF Rich THEN {K("k1"), V("s:bin"), V("s:empty"), V("s:crlf"), V("s:nul"), NULL}
              ELSE IF i = 1 THEN {K("k1"), NULL} ELSE {V("v1"), NULL}
\* (non-numeric strings include the ones a hand-written number parser tends to let through: a lone sign, a leading blank, a hex literal)
IntPool   == IF Rich THEN {I(0), I(1), I(0 - 1), I(7), BIG("max64"), BIG("min64"), BIG("2^31"), J("w:abc"), FL("1.5"), HUGE, NULL}
             ELSE {I(1), I(0), I(0 - 1), J("w:abc"), J("w:minus"), J("w:plus"), J("w:sp5"), J("w:0x"), V("s:empty"), FL("1.5"), HUGE, NULL}
FloatPool == {FL("1.5"), I(1), FL("+inf"), FL("-2"), J("w:abc"), J("w:paren"), J("w:minus"), J("w:plus"), V("s:empty"), NULL}
BoundPool == {I(0), I(1), I(0 - 1), FL("0.9"), FL("-inf"), FL("+inf"), B("1", TRUE), B("1.5", TRUE), J("w:abc"), J("w:paren"), J("w:minus"), NULL}

Pool(kind, i) == CASE kind = "str" -> StrPool(i) [] kind = "int" -> IntPool [] kind = "float" -> FloatPool [] kind = "bound" -> BoundPool

\* product of pools for a positional signature
RECURSIVE Product(_, _)
Product(pos, i) == IF i > Len(pos) THEN {<<>>}
                   ELSE {<<x>> \o rest : x \in Pool(pos[i], i), rest \in Product(pos, i + 1)}

\* a plainly valid positional vector
GoodTok(kind, i) == CASE kind = "str" -> (IF i = 1 THEN K("k1") ELSE IF i = 2 THEN V("v1") ELSE V("v2"))
                      [] kind = "int" -> I(1) [] kind = "float" -> FL("1.5") [] kind = "bound" -> I(0)
Good(pos) == [i \in 1..Len(pos) |-> GoodTok(pos[i], i)]

Positional(pos) == Product(pos, 1) \cup Prefixes(Good(pos))

StrTail == {K("k1"), K("k2"), V("v1"), NULL}
Words(ws) == IF Rich THEN {WC(w, c) : w \in ws, c \in {"u", "l", "m"}} ELSE {W(w) : w \in ws}

Sig == [  \* positional signature and tail pool / bound per command
  DEL |-> <<<<>>, StrTail, 3>>, EXISTS |-> <<<<>>, StrTail, 3>>,
  EXPIRE |-> <<<<"str", "int">>, Words({"NX", "XX", "GT", "LT"}) \cup {J("w:junk"), NULL}, 2>>,
  EXPIREAT |-> <<<<"str", "int">>, Words({"NX", "XX", "GT", "LT"}) \cup {J("w:junk"), NULL}, 1>>,
  KEYS |-> <<<<"str">>, {K("k2")}, 1>>, TYPE |-> <<<<"str">>, {K("k2")}, 1>>, TTL |-> <<<<"str">>, {K("k2")}, 1>>,
  RENAME |-> <<<<"str", "str">>, {K("k2")}, 1>>, RENAMENX |-> <<<<"str", "str">>, {K("k2")}, 1>>,
  SCAN |-> <<<<"int">>, Words({"MATCH", "COUNT"}) \cup {V("s:pat"), I(5), J("w:abc"), NULL}, TailMax>>,
  GET |-> <<<<"str">>, {K("k2")}, 1>>,
  SET |-> <<<<"str", "str">>, Words({"NX", "XX", "EX", "PX", "EXAT", "PXAT", "KEEPTTL", "GET"}) \cup {I(5), I(0), J("w:abc"), NULL}, TailMax>>,
  SETEX |-> <<<<"str", "int", "str">>, {V("v2")}, 1>>,
  GETSET |-> <<<<"str", "str">>, {V("v2")}, 1>>, SETNX |-> <<<<"str", "str">>, {V("v2")}, 1>>,
  MSET |-> <<<<>>, StrTail \cup {V("v2")}, 4>>, MGET |-> <<<<>>, StrTail, 3>>,
  HDEL |-> <<<<"str">>, StrTail, 3>>, HGET |-> <<<<"str", "str">>, {K("k2")}, 1>>, HGETALL |-> <<<<"str">>, {K("k2")}, 1>>,
  HSET |-> <<<<"str", "str", "str">>, {V("v2")}, 2>>, HSETNX |-> <<<<"str", "str", "str">>, {V("v2")}, 1>>,
  HMSET |-> <<<<"str">>, {K("f1"), K("f2"), V("v1"), V("v2"), NULL}, 4>>, HMGET |-> <<<<"str">>, {K("f1"), K("f2"), NULL}, 3>>,
  LINDEX |-> <<<<"str", "int">>, {I(1)}, 1>>, LLEN |-> <<<<"str">>, {K("k2")}, 1>>, LRANGE |-> <<<<"str", "int", "int">>, {I(1)}, 1>>,
  LPOP |-> <<<<"str">>, {I(2), I(0), I(0 - 1), J("w:abc"), FL("1.5"), NULL}, 2>>,
  RPOP |-> <<<<"str">>, {I(2), I(0), I(0 - 1), J("w:abc"), FL("1.5"), NULL}, 2>>,
  LPUSH |-> <<<<"str">>, StrTail, 3>>, RPUSH |-> <<<<"str">>, StrTail, 3>>, LPUSHX |-> <<<<"str">>, StrTail, 2>>, RPUSHX |-> <<<<"str">>, StrTail, 2>>,
  SADD |-> <<<<"str">>, StrTail, 3>>, SREM |-> <<<<"str">>, StrTail, 3>>, SMEMBERS |-> <<<<"str">>, {K("k2")}, 1>>,
  ZADD |-> <<<<"str">>, Words({"NX", "XX", "GT", "LT", "CH", "INCR"}) \cup {I(1), FL("1.5"), K("m1"), K("m2"), J("w:abc"), NULL}, TailMax>>,
  ZINCRBY |-> <<<<"str", "float", "str">>, {K("m2")}, 1>>, ZSCORE |-> <<<<"str", "str">>, {K("m2")}, 1>>, ZREM |-> <<<<"str">>, StrTail, 3>>,
  ZRANGE |-> <<<<"str", "bound", "bound">>, Words({"BYSCORE", "REV", "LIMIT", "WITHSCORES"}) \cup {I(0), I(2), J("w:abc"), NULL}, TailMax>>,
  ZRANGEBYSCORE |-> <<<<"str", "bound", "bound">>, Words({"LIMIT", "WITHSCORES"}) \cup {I(0), I(2), J("w:abc"), NULL}, TailMax>>,
  \* framework / derived commands: shapes only (judged by C12; here they must produce exactly one frame)
  PING |-> <<<<>>, {V("t3"), NULL}, 2>>, ECHO |-> <<<<>>, {V("t3"), NULL}, 2>>, SELECT |-> <<<<>>, {I(1), I(0 - 1), J("w:abc"), NULL, BIG("max64")}, 2>>,
  CONFIG |-> <<<<>>, Words({"GET", "SET"}) \cup {V("c:save"), V("v1"), NULL}, 3>>,
  MSETNX |-> <<<<>>, StrTail, 3>>, APPEND |-> <<<<"str", "str">>, {V("v2")}, 1>>, INCR |-> <<<<"str">>, {K("k2")}, 1>>, DECR |-> <<<<"str">>, {K("k2")}, 1>>,
  INCRBY |-> <<<<"str", "int">>, {I(1)}, 1>>, DECRBY |-> <<<<"str", "int">>, {I(1)}, 1>>, STRLEN |-> <<<<"str">>, {K("k2")}, 1>>,
  GETRANGE |-> <<<<"str", "int", "int">>, {I(1)}, 1>>, SUBSTR |-> <<<<"str", "int", "int">>, {I(1)}, 1>>,
  HEXISTS |-> <<<<"str", "str">>, {K("k2")}, 1>>, HKEYS |-> <<<<"str">>, {K("k2")}, 1>>, HVALS |-> <<<<"str">>, {K("k2")}, 1>>,
  HLEN |-> <<<<"str">>, {K("k2")}, 1>>, HSTRLEN |-> <<<<"str", "str">>, {K("k2")}, 1>>, SCARD |-> <<<<"str">>, {K("k2")}, 1>>,
  SISMEMBER |-> <<<<"str", "str">>, {K("k2")}, 1>>, ZCARD |-> <<<<"str">>, {K("k2")}, 1>>,
  ZREVRANGE |-> <<<<"str", "int", "int">>, Words({"WITHSCORES"}) \cup {J("w:abc"), NULL}, 2>>,
  ZREVRANGEBYSCORE |-> <<<<"str", "bound", "bound">>, Words({"LIMIT", "WITHSCORES"}) \cup {I(0), I(2), NULL}, 3>>
]

Names == IF Only = {} THEN DOMAIN Sig ELSE Only \cap DOMAIN Sig

\* extra valid prefixes for the range commands, so that option tails meet float / exclusive bounds too
GoodPrefixes(nm) ==
  IF nm \in {"ZRANGE", "ZRANGEBYSCORE", "ZREVRANGEBYSCORE"}
  THEN {<<K("k1"), I(0), I(0 - 1)>>, <<K("k1"), FL("-inf"), FL("+inf")>>, <<K("k1"), B("1", TRUE), I(5)>>}
  ELSE {Good(Sig[nm][1])}

\* longer option tails that the bounded enumeration does not reach: every ordered pair of SET expiry options (with values),
\* NX/XX around them, two and three score/member pairs for ZADD with a flag and with a dangling half
Expiry == {"EX", "PX", "EXAT", "PXAT"}
Extra(nm) ==
  IF nm = "SET" THEN {<<K("k1"), V("v1"), W(a), I(5), W(b), I(7)>> : a \in Expiry, b \in Expiry}
                \cup {<<K("k1"), V("v1"), W(x), W(a), I(5), W("GET")>> : x \in {"NX", "XX"}, a \in Expiry}
                \cup {<<K("k1"), V("v1"), W(a), I(5), W(x), W(y)>> : a \in Expiry, x \in {"NX", "XX"}, y \in {"NX", "XX", "KEEPTTL"}}
  ELSE IF nm = "ZADD" THEN {<<K("k1"), I(1), K("m1"), FL("1.5"), K("m2")>>, <<K("k1"), W("CH"), I(1), K("m1"), FL("1.5"), K("m2")>>,
                            <<K("k1"), I(1), K("m1"), FL("1.5"), K("m2"), I(2)>>, <<K("k1"), W("NX"), I(1), K("m1"), I(2)>>,
                            <<K("k1"), I(1), K("m1"), I(2), K("m2"), I(1), K("m1")>>, <<K("k1"), I(1), K("m1"), J("w:abc"), K("m2")>>,
                            <<K("k1"), W("XX"), W("CH"), W("INCR"), I(1), K("m1")>>, <<K("k1"), I(1), K("m1"), I(2), NULL>>}
  \* LIMIT with offsets and counts at the 64-bit edges (a loop bounded only by the client's number must not run for ever)
  ELSE IF nm \in {"ZRANGEBYSCORE", "ZREVRANGEBYSCORE"} THEN
       {<<K("k1"), I(0), I(3), W("LIMIT"), o, c>> : o \in {BIG("max64"), BIG("2^31"), I(0)}, c \in {BIG("max64"), I(1), I(0 - 1)}}
       \cup {<<K("k1"), I(3), I(0), W("LIMIT"), BIG("max64"), I(2), W("WITHSCORES")>>}
  ELSE IF nm = "ZRANGE" THEN
       {<<K("k1"), I(0), I(3), W("BYSCORE"), W("LIMIT"), o, c>> : o \in {BIG("max64"), I(0)}, c \in {BIG("max64"), I(1)}}
       \cup {<<K("k1"), BIG("min64"), BIG("max64")>>, <<K("k1"), I(0), BIG("max64"), W("REV")>>}
  ELSE IF nm \in {"LPOP", "RPOP"} THEN {<<K("k1"), BIG("max64")>>, <<K("k1"), BIG("2^31")>>}
  ELSE IF nm = "LRANGE" THEN {<<K("k1"), BIG("min64"), BIG("max64")>>}
  ELSE {}

Vectors(nm) == LET pos == Sig[nm][1] pool == Sig[nm][2] mx == Sig[nm][3] IN
               Positional(pos) \cup {g \o t : g \in GoodPrefixes(nm), t \in Seqs(pool, mx)} \cup Extra(nm)

Cls(nm, v) == IF nm \in HandlerCommands THEN Expect(nm, v).st
              ELSE IF nm \in DerivedCommands THEN (IF DerivedState(nm, v) = "ill" THEN "ill" ELSE "other")
              ELSE "other"
Init == name \in Names /\ args \in (IF Keep = {} THEN Vectors(name) ELSE {v \in Vectors(name) : Cls(name, v) \in Keep})
Next == UNCHANGED <<name, args>>
Spec == Init /\ [][Next]_<<name, args>>

Class == Cls(name, args)
Export == PrintT(<<"SCENARIO", ToJson([name |-> name, args |-> args, st |-> Class])>>)

\* sanity of the grammar itself: every handler command has a well-formed and an ill-formed vector in the generated space
\* (checked by the driver from the exported classes; vacuity guard)
=============================================================================
