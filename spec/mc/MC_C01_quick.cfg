SPECIFICATION Spec
CONSTANTS
  LineAlpha = {97, 43, 36, 58}
  BulkAlpha = {97, 13, 10, 36, 42, 0}
  MaxPayload = 2
  MaxArity = 2
  Deep = FALSE
INVARIANTS RoundTrip BulkPrefix Export
CHECK_DEADLOCK FALSE
