SPECIFICATION Spec
CONSTANTS
  Alpha = {97, 42, 63, 46}
  MaxLen = 3
INVARIANTS Agree Literal StarAll QLen
CHECK_DEADLOCK FALSE
