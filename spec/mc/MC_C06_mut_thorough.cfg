SPECIFICATION MutSpec
CONSTANTS
  Streams <- AllStrings
  MaxDeclared = 1000
  Alphabet = {42, 36, 43, 45, 49, 57, 13, 10}
  MaxLen = 5
  MaxMut = 2
  BaseCount = 3
INVARIANTS MutExport
CHECK_DEADLOCK FALSE
