SPECIFICATION Spec
CONSTANTS
  LineAlpha = {97, 43, 36}
  BulkAlpha = {97, 13, 10, 36}
  MaxPayload = 3
  MaxArity = 2
  Deep = TRUE
INVARIANTS RoundTrip BulkPrefix Export
CHECK_DEADLOCK FALSE
