SPECIFICATION Spec
CONSTANTS
  Programs <- ProgramsTLS
  Clients = {1}
  Kinds = {"plain", "tls"}
  CloseTarget = "own"
  RegisterGuard = TRUE
  Handshakes = FALSE
  HsGuard = TRUE
  Record = TRUE
INVARIANTS ServingWhileRunning RegistryExact StopPostcondition Export
CHECK_DEADLOCK FALSE
