SPECIFICATION MCSpec
CONSTANTS
  Streams <- AllStreams
  MaxDeclared = 1000
  PoolSize = 16
  Triples = TRUE
INVARIANTS PrefixOK DoneOK NoSpuriousError ExactConsumption Total SoundOnValid Progress
CHECK_DEADLOCK FALSE
