SPECIFICATION Spec
CONSTANTS
  NConn = 3
  MaxLen = 3
  ReplayLen = 2
  Sim = FALSE
INVARIANTS AuthGate Export
PROPERTIES PerConnection
CHECK_DEADLOCK FALSE
