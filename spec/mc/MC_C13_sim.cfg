SPECIFICATION Spec
CONSTANTS
  NConn = 6
  MaxLen = 0
  Sim = TRUE
  SimLen = 120
INVARIANTS Defaults Export
CHECK_DEADLOCK FALSE
