SPECIFICATION Spec
CONSTANTS
  Programs <- ProgramsThorough
  Clients = {1, 2}
  Kinds = {"plain"}
  CloseTarget = "own"
  RegisterGuard = TRUE
  Handshakes = FALSE
  HsGuard = TRUE
  Record = TRUE
INVARIANTS ServingWhileRunning RegistryExact StopPostcondition Export
CHECK_DEADLOCK FALSE
