SPECIFICATION Spec
CONSTANTS
  Programs <- ProgramsQuick
  Clients = {1, 2}
  Kinds = {"plain", "tls"}
  CloseTarget = "own"
  RegisterGuard = TRUE
  Handshakes = TRUE
  HsGuard = FALSE
  Record = FALSE
INVARIANTS ServingWhileRunning RegistryExact StopPostcondition
CHECK_DEADLOCK FALSE
