SPECIFICATION GenSpec
CONSTANTS
  Streams <- AllStreams
  MaxDeclared = 1000
  PoolSize = 16
  Triples = TRUE
INVARIANTS GenExport
CHECK_DEADLOCK FALSE
