SPECIFICATION Spec
CONSTANTS
  TailMax = 4
  Rich = TRUE
  Only = {}
  Keep = {"well"}
INVARIANTS Export
CHECK_DEADLOCK FALSE
