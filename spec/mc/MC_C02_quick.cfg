SPECIFICATION MCSpec
CONSTANTS
  Streams <- AllStreams
  MaxDeclared = 1000
  PoolSize = 10
  Triples = FALSE
INVARIANTS PrefixOK DoneOK NoSpuriousError ExactConsumption Total SoundOnValid Progress
CHECK_DEADLOCK FALSE
