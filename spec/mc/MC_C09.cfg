SPECIFICATION Spec
INVARIANTS OnlyNamed Export
CHECK_DEADLOCK FALSE
