------------------------------ MODULE MC_C02 ------------------------------
(* C02 (and the design half of C06): Parser.tla over concatenations of      *)
(* encoded values, EVERY partition of the byte stream into reads.  A second  *)
(* Init/Next pair (the Gen operators) exports concrete partitions for replay.             *)
EXTENDS Parser, Json
CONSTANTS PoolSize,   \* how many pool values are used
          Triples     \* also concatenations of three values (over the first 5)


Pool == <<
  Bulk(<<97>>),                                              \* $1 a
  Str(<<79, 75>>),                                          \* +OK
  Bulk(<<13, 10>>),                                          \* bulk holding CRLF
  Arr(<<Bulk(<<71, 69, 84>>), Bulk(<<107>>)>>),              \* *2 GET k
  Null,
  IntV(<<45, 49>>),                                          \* :-1
  Bulk(<<>>),
  Arr(<<>>),
  Err(<<69>>),
  Arr(<<Arr(<<IntV(<<49>>)>>), Null>>),                      \* nested
  Bulk(<<36, 49, 13, 10, 43>>),                              \* payload that looks like a header
  Str(<<>>),
  Bulk(<<104, 101, 108, 108, 111, 13, 10, 119, 111, 114, 108, 100>>),   \* 12 bytes with CRLF inside
  IntV(<<49, 48>>),
  Arr(<<Str(<<97>>), Err(<<98>>), Bulk(<<42, 49>>)>>),
  Arr(<<Bulk(<<>>), Arr(<<>>)>>)
>>


Vs == {Pool[k] : k \in 1..PoolSize}
V5 == {Pool[k] : k \in 1..5}
AllStreams == {Enc(a) : a \in Vs}
         \cup {Enc(a) \o Enc(b) : a \in Vs, b \in Vs}
         \cup (IF Triples THEN {Enc(a) \o Enc(b) \o Enc(c) : a \in V5, b \in V5, c \in V5} ELSE {})

---------------------------------------------------------------------------
(* generator: concrete partitions for replay (sizes of successive chunks)  *)
Ones(n) == [k \in 1..n |-> 1]
Parts(n) == {<<n>>, Ones(n)}
       \cup {<<i, n - i>> : i \in 1..(n - 1)}
       \cup UNION {{<<i, d, n - i - d>> : d \in {dd \in 1..2 : n - i - dd >= 1}} : i \in 1..(n - 2)}
VARIABLES gs, gp
GenInit == /\ gs \in AllStreams /\ gp \in Parts(Len(gs))
           /\ stream = gs /\ deliv = 0 /\ closed = FALSE /\ pos = 0 /\ pc = "gen" /\ kind = ""
           /\ acc = <<>> /\ need = 0 /\ stack = <<>> /\ out = <<>>
GenNext == UNCHANGED <<vars, gs, gp>>
GenSpec == GenInit /\ [][GenNext]_<<vars, gs, gp>>
\* the model-checking run proper: generator variables idle
MCInit == Init /\ gs = <<>> /\ gp = <<>>
MCNext == Next /\ UNCHANGED <<gs, gp>>
MCSpec == MCInit /\ [][MCNext]_<<vars, gs, gp>>
GenExport == PrintT(<<"SCENARIO", ToJson([stream |-> gs, chunks |-> gp])>>)
=============================================================================
