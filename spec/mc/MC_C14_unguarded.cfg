SPECIFICATION Spec
CONSTANT Guarded = FALSE
INVARIANT RaceFree
CHECK_DEADLOCK FALSE
