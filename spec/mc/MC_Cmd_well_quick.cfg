SPECIFICATION Spec
CONSTANTS
  TailMax = 3
  Rich = TRUE
  Only = {}
  Keep = {"well"}
INVARIANTS Export
CHECK_DEADLOCK FALSE
