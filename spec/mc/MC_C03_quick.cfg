SPECIFICATION Spec
CONSTANTS
  MaxLen = 3
  Chunkings = {"whole", "bytes", "allsplits", "nextsplits"}
  SplitMaxLen = 1
INVARIANTS RepliesNeverOutrun RepliedBeforeBlocking QuitStops AllAnswered Export
CHECK_DEADLOCK FALSE
