------------------------------ MODULE MC_C16 ------------------------------
(***************************************************************************)
(* C16, design level: N clients each execute one command; a command is the *)
(* sequence of primitive handler calls the framework makes for it          *)
(* (Composite.tla), primitives are atomic, and TLC explores every          *)
(* interleaving of the primitive steps.                                    *)
(*   AtomicOutcome: at the end, replies and keyspace equal those of SOME   *)
(*   sequential order of the commands.  It holds when every command is a   *)
(*   single primitive and is VIOLATED as soon as a derived read-modify-    *)
(*   write command is involved (lost update, two SETNX-like winners,       *)
(*   partial MSETNX): the design is not atomic.                            *)
(* Every terminal interleaving is exported as a schedule for replay: the   *)
(* schedule is a choice of the environment (which parked client proceeds). *)
(***************************************************************************)
EXTENDS Composite, TLC, Json
CONSTANTS Kinds,      \* subset of the command kinds below
          Triples     \* TRUE: three clients
VARIABLES init, ops, prog, fin, ks, sched
vars == <<init, ops, prog, fin, ks, sched>>

N == IF Triples THEN 3 ELSE 2
Clients == 0..(N - 1)

T(k, s, b) == [k |-> k, s |-> s, n |-> 0, big |-> "", f |-> "", fs |-> "", ex |-> FALSE, w |-> "", cs |-> "", b |-> b]
KA == T("key", "ka", <<107, 97>>)
KB == T("key", "kb", <<107, 98>>)
Val(c) == CASE c = 0 -> T("str", "va", <<118, 97>>) [] c = 1 -> T("str", "vb", <<118, 98>>) [] OTHER -> T("str", "vc", <<118, 99>>)
I(n) == [T("int", "", <<>>) EXCEPT !.n = n]
C(name, args) == [cls |-> "lin", name |-> name, args |-> args]

ReqOf(kind, c) ==
  CASE kind = "GET" -> C("GET", <<KA>>) [] kind = "SET" -> C("SET", <<KA, Val(c)>>) [] kind = "SETNX" -> C("SETNX", <<KA, Val(c)>>)
    [] kind = "GETSET" -> C("GETSET", <<KA, Val(c)>>) [] kind = "DEL" -> C("DEL", <<KA>>)
    [] kind = "INCR" -> C("INCR", <<KA>>) [] kind = "DECRBY" -> C("DECRBY", <<KA, I(3)>>)
    [] kind = "APPEND" -> C("APPEND", <<KA, Val(c)>>)
    [] kind = "MSETNX" -> C("MSETNX", <<KA, Val(c), KB, Val(c)>>)
    [] kind = "GETB" -> C("GET", <<KB>>) [] kind = "SETB" -> C("SET", <<KB, Val(c)>>)

\* initial contents of ka: absent, a number, a text
Inits == {"absent", "num", "text"}
InitKS(i) == CASE i = "absent" -> EmptyKS [] i = "num" -> StrPut(EmptyKS, KA.b, <<53>>) [] i = "text" -> StrPut(EmptyKS, KA.b, <<120>>)
SetupOf(i) == CASE i = "absent" -> <<>> [] i = "num" -> <<C("SET", <<KA, T("str", "5", <<53>>)>>)>> [] i = "text" -> <<C("SET", <<KA, T("str", "x", <<120>>)>>)>>

Init == /\ init \in Inits
        /\ ops \in [Clients -> Kinds]
        /\ \A c \in Clients \ {0} : \A d \in 0..(c - 1) : TRUE
        /\ prog = [c \in Clients |-> Begin(ReqOf(ops[c], c))]
        /\ fin = [c \in Clients |-> [done |-> FALSE]]
        /\ ks = InitKS(init) /\ sched = <<>>

Step(c) == /\ ~fin[c].done
           /\ \E res \in CSteps(ks, prog[c]) :
                /\ ks' = res.ks
                /\ prog' = [prog EXCEPT ![c] = res.p]
                /\ fin' = [fin EXCEPT ![c] = IF res.done THEN [done |-> TRUE, m |-> res.m] ELSE fin[c]]
           /\ sched' = Append(sched, c)
           /\ UNCHANGED <<init, ops>>
Next == \E c \in Clients : Step(c)
Spec == Init /\ [][Next]_vars

Terminal == \A c \in Clients : fin[c].done

\* outcome of a sequential execution in the client order given by perm
Outcome(m) == IF IsErrRes(m) THEN [err |-> TRUE, v |-> Null] ELSE [err |-> FALSE, v |-> m.reply]
RECURSIVE SeqRun(_, _, _, _)
SeqRun(k, perm, i, acc) ==
  IF i > Len(perm) THEN [ks |-> k, out |-> acc]
  ELSE LET r == ReqOf(ops[perm[i]], perm[i]) m == Exec(k, r.name, r.args) IN
       SeqRun(IF IsErrRes(m) THEN k ELSE m.ks, perm, i + 1, [acc EXCEPT ![perm[i]] = Outcome(m)])
Perms == {p \in [1..N -> Clients] : \A i, j \in 1..N : i # j => p[i] # p[j]}
Blank == [c \in Clients |-> [err |-> FALSE, v |-> Null]]
AtomicOutcome == Terminal => \E p \in Perms : LET s == SeqRun(InitKS(init), p, 1, Blank) IN
                                 s.ks = ks /\ \A c \in Clients : s.out[c] = Outcome(fin[c].m)

Scenario == [handler |-> "ref", gate |-> TRUE, nconns |-> N, model |-> FALSE,
             setup |-> SetupOf(init), ops |-> [i \in 1..N |-> [c |-> i - 1, req |-> ReqOf(ops[i - 1], i - 1)]], schedule |-> sched]
Export == Terminal => PrintT(<<"SCENARIO", ToJson(Scenario)>>)
=============================================================================
