SPECIFICATION Spec
CONSTANTS
  NConn = 2
  MaxLen = 3
  ReplayLen = 2
  Sim = FALSE
INVARIANTS AuthGate Export
PROPERTIES PerConnection
CHECK_DEADLOCK FALSE
