------------------------------ MODULE MC_C09 ------------------------------
(* C09: the finite scenario space, enumerated completely: configuration x   *)
(* credential x handshake fault x position relative to well-behaved         *)
(* clients.  Design-level sanity: exactly the credentials the property      *)
(* names are admitted.                                                      *)
EXTENDS TLSGate, Json
VARIABLES cfg, cl, pos
Configs == {[rule |-> FALSE, pass |-> FALSE], [rule |-> TRUE, pass |-> FALSE], [rule |-> TRUE, pass |-> TRUE]}
Possible(cred, fault) == fault = "none" \/ (cred \in {"nocert", "ok"} /\ fault \in {"abort", "stall"}) \/ (cred = "plain" /\ fault \in {"garbage", "flood"})
Init == /\ cfg \in Configs /\ pos \in {"before", "between", "after"}
        /\ cl \in {[cred |-> c, fault |-> f] : c \in Creds, f \in Faults}
        /\ Possible(cl.cred, cl.fault)
Next == UNCHANGED <<cfg, cl, pos>>
Spec == Init /\ [][Next]_<<cfg, cl, pos>>
OnlyNamed == Admitted(cl.cred, cl.fault, cfg.rule) <=> (cl.fault = "none" /\ (cl.cred = "ok" \/ (~cfg.rule /\ cl.cred \in {"wrongname", "intermediate", "namecase", "nameprefix", "namesuffix", "namesan"})))
Export == PrintT(<<"SCENARIO", ToJson([rule |-> cfg.rule, pass |-> cfg.pass, cred |-> cl.cred, fault |-> cl.fault, pos |-> pos])>>)
=============================================================================
