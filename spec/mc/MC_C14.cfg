SPECIFICATION Spec
CONSTANT Guarded = TRUE
INVARIANT RaceFree
CHECK_DEADLOCK FALSE
