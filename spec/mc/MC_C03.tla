------------------------------ MODULE MC_C03 ------------------------------
(***************************************************************************)
(* C03 (and the scenario source of C04/C20): pipelines of requests over    *)
(* OUTCOME CLASSES on one connection, with the abstract server loop.       *)
(*                                                                         *)
(* The model: requests arrive in batches (Deliver, only while the server   *)
(* waits), the server executes one complete request at a time (Process)    *)
(* and makes replies visible in order, possibly several at once (Flush: a  *)
(* server may batch the replies of a pipeline); QUIT makes it close        *)
(* (Close).  Invariants: the server only waits when every complete request *)
(* was answered, replies never outrun executed requests, nothing is        *)
(* processed after QUIT.  Every (pipeline, configuration,       *)
(* chunking) of the bounded space is exported for replay.                  *)
(***************************************************************************)
EXTENDS Integers, Sequences, TLC, Json
CONSTANTS MaxLen,        \* longest pipeline
          Chunkings,     \* subset of {"whole", "perreq", "bytes", "allsplits", "nextsplits"}; nextsplits = a chunk that holds
                         \* some complete requests and a proper prefix of the next one (pipelines of 2 or 3 requests)
          SplitMaxLen    \* "allsplits" only for pipelines up to this length
VARIABLES pipe, rp, chk, ndeliv, nexec, nrep, quit, closed, auth
vars == <<pipe, rp, chk, ndeliv, nexec, nrep, quit, closed, auth>>

KindsOpen == {"echo", "get", "argerr", "unknown", "herr", "hnil", "hboth", "quit", "nonarray", "bulkframe", "emptyarr"}
KindsPass == {"auth_ok", "auth_bad", "get", "echo", "quit", "unknown"}

Pipes(K) == UNION {[1..n -> K] : n \in 1..MaxLen}

Init == /\ rp \in BOOLEAN
        /\ pipe \in Pipes(IF rp THEN KindsPass ELSE KindsOpen)
        /\ chk \in Chunkings
        /\ (chk = "allsplits" => Len(pipe) <= SplitMaxLen)
        /\ (chk = "nextsplits" => Len(pipe) >= 2 /\ Len(pipe) <= SplitMaxLen + 1)
        /\ ndeliv = 0 /\ nexec = 0 /\ nrep = 0 /\ quit = FALSE /\ closed = FALSE /\ auth = ~rp

Waiting == ~closed /\ ~quit /\ nrep = ndeliv

Deliver == /\ Waiting /\ ndeliv < Len(pipe)
           /\ \E k \in 1..(Len(pipe) - ndeliv) : ndeliv' = ndeliv + k
           /\ UNCHANGED <<pipe, rp, chk, nexec, nrep, quit, closed, auth>>

Process == /\ ~closed /\ ~quit /\ nexec < ndeliv
           /\ LET k == pipe[nexec + 1] IN
              /\ nexec' = nexec + 1
              /\ quit' = (k = "quit" /\ auth)
              /\ auth' = (auth \/ k = "auth_ok")
           /\ UNCHANGED <<pipe, rp, chk, ndeliv, nrep, closed>>

\* replies become visible in order; any number of the executed requests' replies at once
Flush == /\ ~closed /\ nrep < nexec
         /\ \E k \in (nrep + 1)..nexec : nrep' = k
         /\ UNCHANGED <<pipe, rp, chk, ndeliv, nexec, quit, closed, auth>>

Close == /\ ~closed /\ nrep = nexec /\ (quit \/ (nrep = ndeliv /\ ndeliv = Len(pipe)))
         /\ closed' = TRUE
         /\ UNCHANGED <<pipe, rp, chk, ndeliv, nexec, nrep, quit, auth>>

Next == Deliver \/ Process \/ Flush \/ Close
Spec == Init /\ [][Next]_vars

RepliesNeverOutrun == nrep <= nexec /\ nexec <= ndeliv
RepliedBeforeBlocking == ENABLED Deliver => nrep = ndeliv
QuitStops == quit => ~ENABLED Process
AllAnswered == closed /\ ~quit => nrep = ndeliv

---------------------------------------------------------------------------
(* concretisation of the classes into requests of the harness's scenario format *)
T(k, s) == [k |-> k, s |-> s, n |-> 0, big |-> "", f |-> "", fs |-> "", ex |-> FALSE, w |-> "", cs |-> ""]
Tag(i) == T("str", CASE i = 1 -> "t1" [] i = 2 -> "t2" [] i = 3 -> "t3" [] OTHER -> "t4")
R(cls, name, args) == [cls |-> cls, name |-> name, args |-> args]

Req(k, i) ==
  CASE k = "echo"     -> R(k, IF i % 2 = 1 THEN "ECHO" ELSE "echo", <<Tag(i)>>)
    [] k = "get"      -> R(k, "GET", <<T("key", "k1")>>)
    [] k = "argerr"   -> R(k, "GET", <<>>)
    [] k = "unknown"  -> R(k, "FOOBAR", <<T("str", "v1")>>)
    [] k = "herr"     -> R(k, "GET", <<T("key", "k:err")>>)
    [] k = "hnil"     -> R(k, "GET", <<T("key", "k:nil")>>)
    [] k = "hboth"    -> R(k, "GET", <<T("key", "k:both")>>)
    [] k = "quit"     -> R(k, IF i % 2 = 1 THEN "QUIT" ELSE "quit", <<>>)
    [] k = "nonarray" -> [cls |-> k, name |-> "", args |-> <<>>, frame |-> <<43, 80, 73, 78, 71, 13, 10>>]       \* +PING
    [] k = "bulkframe" -> [cls |-> k, name |-> "", args |-> <<>>, frame |-> <<36, 51, 13, 10, 97, 98, 99, 13, 10>>]  \* $3 abc
    [] k = "emptyarr" -> [cls |-> k, name |-> "", args |-> <<>>, frame |-> <<42, 48, 13, 10>>]                   \* *0
    [] k = "auth_ok"  -> R(k, "AUTH", <<T("str", "pw:exact")>>)
    [] k = "auth_bad" -> R(k, "AUTH", <<T("str", "pw:other")>>)

Scenario == [requirepass |-> IF rp THEN "pw:exact" ELSE "", handler |-> "rec", tracer |-> TRUE, nconns |-> 1,
             steps |-> <<[c |-> 0, op |-> "send", chunking |-> chk, reqs |-> [i \in 1..Len(pipe) |-> Req(pipe[i], i)]]>>]

Export == (ndeliv = 0 /\ nrep = 0 /\ ~closed) => PrintT(<<"SCENARIO", ToJson(Scenario)>>)
=============================================================================
