SPECIFICATION Spec
CONSTANTS
  Programs <- ProgramsQuick
  Clients = {1}
  Kinds = {"plain"}
  CloseTarget = "own"
  RegisterGuard = TRUE
  Handshakes = FALSE
  HsGuard = TRUE
  Record = TRUE
INVARIANTS ServingWhileRunning RegistryExact StopPostcondition Export
CHECK_DEADLOCK FALSE
