SPECIFICATION Spec
CONSTANTS
  Programs <- ProgramsThorough
  Clients = {1, 2}
  Kinds = {"plain"}
  CloseTarget = "own"
  RegisterGuard = TRUE
  Record = FALSE
INVARIANTS ServingWhileRunning RegistryExact StopPostcondition
CHECK_DEADLOCK FALSE
