SPECIFICATION Spec
CONSTANTS
  TailMax = 3
  Rich = FALSE
  Only = {}
  Keep = {}
INVARIANTS Export
CHECK_DEADLOCK FALSE
