SPECIFICATION Spec
CONSTANTS
  Programs <- ProgramRestart
  Clients = {1}
  Kinds = {"plain"}
  CloseTarget = "current"
  RegisterGuard = TRUE
  Record = TRUE
INVARIANTS ServingWhileRunning
CHECK_DEADLOCK FALSE
