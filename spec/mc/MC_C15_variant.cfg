SPECIFICATION Spec
CONSTANTS
  Programs <- ProgramRestart
  Clients = {1}
  Kinds = {"plain"}
  CloseTarget = "current"
  RegisterGuard = TRUE
INVARIANTS ServingWhileRunning
CHECK_DEADLOCK FALSE
