SPECIFICATION Spec
CONSTANTS
  Programs <- ProgramRestart
  Clients = {1}
  Kinds = {"plain"}
  CloseTarget = "current"
  RegisterGuard = TRUE
  Handshakes = FALSE
  HsGuard = TRUE
  Record = TRUE
INVARIANTS ServingWhileRunning
CHECK_DEADLOCK FALSE
