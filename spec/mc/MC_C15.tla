------------------------------ MODULE MC_C15 ------------------------------
(* C15: Server.tla for the design the properties need (an exiting loop      *)
(* closes its own listener, registration is guarded by the stopped flag),    *)
(* every interleaving of the controller program with accept loops and        *)
(* connection goroutines; every maximal path is exported as a script of      *)
(* schedule-point releases for replay on a real server.                      *)
EXTENDS Server, Json
ProgramsQuick == {<<"Start", "Stop">>, <<"Start", "Restart">>, <<"Start", "Restart", "Stop">>, <<"Start", "Stop", "Start">>}
ProgramsThorough == ProgramsQuick \cup {<<"Start", "Restart", "Restart">>, <<"Start", "Stop", "Start", "Stop">>, <<"Start", "Restart", "Restart", "Stop">>,
                                        <<"Start", "Stop", "Start", "Restart", "Stop">>, <<"Start", "Restart", "Stop", "Start", "Restart", "Stop">>}
ProgramRestart == {<<"Start", "Restart">>}
ProgramsTLS == {<<"Start", "Stop">>, <<"Start", "Restart">>}
Export == (~ENABLED Next) => PrintT(<<"SCENARIO", ToJson([prog |-> prog, script |-> script, kinds |-> KindSeq])>>)
=============================================================================
