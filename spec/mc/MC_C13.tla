------------------------------ MODULE MC_C13 ------------------------------
(***************************************************************************)
(* C13: connection-scoped state (selected database, authorization, user    *)
(* data) on N connections.  Model state: db[c], auth[c], ud[c]; a step is  *)
(* one request (c, kind).  Action property: a request on c never changes   *)
(* the state of another connection; invariant: the state a handler would   *)
(* see equals the fold of the connection's own history.  Every history up  *)
(* to MaxLen is exported, followed by a data probe on every connection.    *)
(***************************************************************************)
EXTENDS Integers, Sequences, FiniteSets, TLC, Json
CONSTANTS NConn, MaxLen, Sim, SimLen
VARIABLES rp, db, auth, ud, hist
vars == <<rp, db, auth, ud, hist>>
Conns == 0..(NConn - 1)

Kinds == {"SEL0", "SEL1", "SEL2", "SELBAD", "AUTHOK", "AUTHBAD", "DATA", "UDA", "UDB"}

Init == /\ rp \in BOOLEAN
        /\ db = [c \in Conns |-> 0] /\ auth = [c \in Conns |-> ~rp] /\ ud = [c \in Conns |-> ""] /\ hist = <<>>

Step(c, k) ==
  /\ Len(hist) < (IF Sim THEN SimLen ELSE MaxLen)
  /\ hist' = Append(hist, <<c, k>>)
  /\ rp' = rp
  /\ db' = IF auth[c] /\ k \in {"SEL0", "SEL1", "SEL2"}
           THEN [db EXCEPT ![c] = CASE k = "SEL0" -> 0 [] k = "SEL1" -> 1 [] k = "SEL2" -> 2] ELSE db
  /\ auth' = IF k = "AUTHOK" THEN [auth EXCEPT ![c] = TRUE] ELSE auth
  /\ ud' = IF auth[c] /\ k \in {"UDA", "UDB"} THEN [ud EXCEPT ![c] = IF k = "UDA" THEN "a" ELSE "b"] ELSE ud

Next == \E c \in Conns, k \in Kinds : Step(c, k)
Spec == Init /\ [][Next]_vars

\* a request only ever changes the state of the connection it arrived on
OwnStateOnly == [][\A c \in Conns : (db'[c] # db[c] \/ auth'[c] # auth[c] \/ ud'[c] # ud[c]) => hist'[Len(hist')][1] = c]_vars
Defaults == hist = <<>> => \A c \in Conns : db[c] = 0 /\ ud[c] = ""

T(k, s) == [k |-> k, s |-> s, n |-> 0, big |-> "", f |-> "", fs |-> "", ex |-> FALSE, w |-> "", cs |-> ""]
I(n) == [T("int", "") EXCEPT !.n = n]
R(name, args) == [cls |-> "c13", name |-> name, args |-> args]
Req(k) == CASE k = "SEL0" -> R("SELECT", <<I(0)>>) [] k = "SEL1" -> R("select", <<I(1)>>) [] k = "SEL2" -> R("SELECT", <<I(2)>>)
            [] k = "SELBAD" -> R("SELECT", <<T("junk", "w:abc")>>)
            [] k = "AUTHOK" -> R("AUTH", <<T("str", "pw:exact")>>) [] k = "AUTHBAD" -> R("AUTH", <<T("str", "pw:other")>>)
            [] k = "DATA" -> R("GET", <<T("key", "k1")>>)
            [] k = "UDA" -> R("GET", <<T("key", "k:ud=a")>>) [] k = "UDB" -> R("SET", <<T("key", "k:ud=b"), T("str", "v1")>>)
Probe(c) == [c |-> c, op |-> "send", reqs |-> <<R("HGET", <<T("key", "k2"), T("key", "f1")>>)>>]
StepsOf(h) == [i \in 1..Len(h) |-> [c |-> h[i][1], op |-> "send", reqs |-> <<Req(h[i][2])>>]] \o [c \in 1..NConn |-> Probe(c - 1)]
Scenario(h) == [requirepass |-> IF rp THEN "pw:exact" ELSE "", handler |-> "rec", tracer |-> FALSE, nconns |-> NConn,
                concurrent |-> Sim, steps |-> StepsOf(h)]
Export == (IF Sim THEN Len(hist) = SimLen ELSE Len(hist) >= 1) => PrintT(<<"SCENARIO", ToJson(Scenario(hist))>>)
=============================================================================
