------------------------------ MODULE MC_C08 ------------------------------
(***************************************************************************)
(* C08: the password gate on N connections of one server.                  *)
(*                                                                         *)
(* Model: auth[c] per connection; a step is one request (c, kind).  The    *)
(* AUTH rule is the property's: plain AUTH <exact> succeeds, AUTH "" <exact>*)
(* and surplus-argument forms that contain the exact password may go       *)
(* either way (the property is silent), everything else fails and leaves   *)
(* auth[c] unchanged.  Invariants (checked over ALL request sequences up   *)
(* to MaxLen on all connections): a data command executes on c only if an  *)
(* AUTH that could succeed was sent on c before; auth[c] never changes by  *)
(* another connection's request.                                           *)
(*                                                                         *)
(* Replay set: every sequence up to ReplayLen, and for every reachable     *)
(* auth state x every request kind x every connection one scenario, each   *)
(* followed by a probe (GET) on every connection.                          *)
(***************************************************************************)
EXTENDS Integers, Sequences, FiniteSets, TLC, Json
CONSTANTS NConn, MaxLen, ReplayLen,
          Sim      \* TRUE (simulation runs): export only full-length random walks
VARIABLES auth, hist, mayauth
vars == <<auth, hist, mayauth>>

Conns == 0..(NConn - 1)

Auth1 == {"exact", "empty", "null", "prefix1", "prefixn", "suffix", "case", "nul", "crlf", "space", "other"}
Auth2 == {<<"empty", "exact">>, <<"bob", "exact">>, <<"exact", "exact">>, <<"default", "exact">>, <<"empty", "other">>, <<"bob", "other">>,
          <<"exact", "other">>, <<"exact", "empty">>}
Others == {"PING", "ECHO", "GET", "SET", "SELECT", "FOO", "QUIT"}
Kinds == {<<"AUTH0">>} \cup {<<"AUTH1", p>> : p \in Auth1} \cup {<<"AUTH2", up[1], up[2]>> : up \in Auth2}
         \cup {<<"AUTH3", "exact", "exact", "exact">>, <<"AUTH3", "other", "exact", "other">>, <<"AUTH3", "other", "other", "other">>}
         \cup {<<o>> : o \in Others}

\* "ok" | "fail" | "either"
Outcome(k) ==
  CASE k[1] = "AUTH1" -> IF k[2] = "exact" THEN "ok" ELSE "fail"
    [] k[1] = "AUTH2" -> IF k[2] = "empty" /\ k[3] = "exact" THEN "either" ELSE "fail"
    [] k[1] = "AUTH3" -> IF \E i \in 2..4 : k[i] = "exact" THEN "either" ELSE "fail"
    [] OTHER -> "fail"
IsAuth(k) == k[1] \in {"AUTH0", "AUTH1", "AUTH2", "AUTH3"}

Init == auth = [c \in Conns |-> FALSE] /\ hist = <<>> /\ mayauth = [c \in Conns |-> FALSE]

Step(c, k) ==
  /\ Len(hist) < MaxLen
  /\ hist' = Append(hist, <<c, k>>)
  /\ IF IsAuth(k)
     THEN /\ \E ok \in BOOLEAN :
               /\ (ok => Outcome(k) \in {"ok", "either"})
               /\ (~ok => Outcome(k) \in {"fail", "either"})
               /\ auth' = [auth EXCEPT ![c] = auth[c] \/ ok]          \* failure leaves it unchanged
          /\ mayauth' = [mayauth EXCEPT ![c] = mayauth[c] \/ Outcome(k) # "fail"]
     ELSE /\ (k[1] = "QUIT" /\ auth[c] => TRUE)
          /\ UNCHANGED <<auth, mayauth>>

Next == \E c \in Conns, k \in Kinds : Step(c, k)
Spec == Init /\ [][Next]_vars

\* authorization is only ever acquired through the connection's own AUTH that carried the exact password
AuthGate == \A c \in Conns : auth[c] => mayauth[c]
PerConnection == [][\A c \in Conns : auth'[c] # auth[c] => hist'[Len(hist')][1] = c]_vars

---------------------------------------------------------------------------
(* concretisation                                                          *)
T(k, s) == [k |-> k, s |-> s, n |-> 0, big |-> "", f |-> "", fs |-> "", ex |-> FALSE, w |-> "", cs |-> ""]
P(p) == IF p = "null" THEN T("null", "")
        ELSE IF p = "empty" THEN T("str", "s:empty")
        ELSE IF p = "bob" THEN T("str", "u:bob")
        ELSE IF p = "default" THEN T("str", "u:default")
        ELSE T("str", CASE p = "exact" -> "pw:exact" [] p = "prefix1" -> "pw:prefix1" [] p = "prefixn" -> "pw:prefixn"
                        [] p = "suffix" -> "pw:suffix" [] p = "case" -> "pw:case" [] p = "nul" -> "pw:nul" [] p = "crlf" -> "pw:crlf"
                        [] p = "space" -> "pw:space" [] p = "other" -> "pw:other")
R(name, args) == [cls |-> "c08", name |-> name, args |-> args]
Req(k) ==
  CASE k[1] = "AUTH0" -> R("AUTH", <<>>)
    [] k[1] = "AUTH1" -> R("AUTH", <<P(k[2])>>)
    [] k[1] = "AUTH2" -> R("auth", <<P(k[2]), P(k[3])>>)
    [] k[1] = "AUTH3" -> R("AUTH", <<P(k[2]), P(k[3]), P(k[4])>>)
    [] k[1] = "PING" -> R("PING", <<>>)
    [] k[1] = "ECHO" -> R("ECHO", <<T("str", "t1")>>)
    [] k[1] = "GET" -> R("GET", <<T("key", "k1")>>)
    [] k[1] = "SET" -> R("SET", <<T("key", "k1"), T("str", "v1")>>)
    [] k[1] = "SELECT" -> R("SELECT", <<[T("int", "") EXCEPT !.n = 1]>>)
    [] k[1] = "FOO" -> R("FOOBAR", <<>>)
    [] k[1] = "QUIT" -> R("QUIT", <<>>)

Probe(c) == [c |-> c, op |-> "send", reqs |-> <<R("GET", <<T("key", "k2")>>)>>]
StepsOf(h) == [i \in 1..Len(h) |-> [c |-> h[i][1], op |-> "send", reqs |-> <<Req(h[i][2])>>]]
               \o [c \in 1..NConn |-> Probe(c - 1)]
Scenario(h) == [requirepass |-> "pw:exact", handler |-> "rec", tracer |-> FALSE, nconns |-> NConn, steps |-> StepsOf(h)]

\* histories worth replaying: all short ones, and one representative (a fixed AUTH exact prefix) per model state x action
Worth == IF Sim THEN Len(hist) = MaxLen ELSE Len(hist) >= 1 /\
         (\/ Len(hist) <= ReplayLen
          \/ \A i \in 1..(Len(hist) - 1) : hist[i][2] = <<"AUTH1", "exact">> /\ (i > 1 => hist[i][1] > hist[i - 1][1]))
Export == Worth => PrintT(<<"SCENARIO", ToJson(Scenario(hist))>>)
=============================================================================
