SPECIFICATION Spec
CONSTANTS
  NConn = 3
  MaxLen = 30
  ReplayLen = 0
  Sim = TRUE
INVARIANTS AuthGate Export
CHECK_DEADLOCK FALSE
