SPECIFICATION Spec
CONSTANTS
  TailMax = 4
  Rich = FALSE
  Only = {}
  Keep = {}
INVARIANTS Export
CHECK_DEADLOCK FALSE
