------------------------------ MODULE MC_C06 ------------------------------
(* C06: hostile input.                                                       *)
(*  (a) MCSpec : Parser.tla over ALL byte strings up to MaxLen over the      *)
(*      framing alphabet, every delivery schedule: Total, SoundOnValid,      *)
(*      Progress (no stuck state other than value/end/error).                *)
(*  (b) MutSpec: a mutation model.  Starting from valid streams, up to       *)
(*      MaxMut mutation steps (truncate, delete, duplicate, flip, splice,    *)
(*      replace a declared length/count by a boundary number); every mutant  *)
(*      is exported for replay into the real parser.                         *)
EXTENDS Parser, Json
CONSTANTS Alphabet, MaxLen, MaxMut, BaseCount

Strings(n) == UNION {[1..k -> Alphabet] : k \in 0..n}
AllStrings == Strings(MaxLen)

---------------------------------------------------------------------------
Base == <<
  Enc(Arr(<<Bulk(<<71, 69, 84>>), Bulk(<<107>>)>>)),                    \* *2 $3 GET $1 k
  Enc(Bulk(<<104, 101, 108, 108, 111>>)),                               \* $5 hello
  Enc(Arr(<<Arr(<<IntV(<<49>>)>>), Null>>)),                            \* nested
  Enc(Str(<<79, 75>>)) \o Enc(IntV(<<45, 49>>)),                        \* +OK :-1
  Enc(Arr(<<Bulk(<<>>), Bulk(<<13, 10>>), Bulk(<<97, 98>>)>>)),         \* *3 with empty and CRLF payloads
  Enc(Arr(<<>>)) \o Enc(Bulk(<<>>)) \o Enc(Err(<<69>>)),
  Enc(Arr(<<Bulk(<<76, 80, 79, 80>>), Bulk(<<108>>), Bulk(<<50>>)>>)),  \* LPOP l 2
  Enc(Null) \o Enc(Arr(<<Str(<<97>>), Err(<<98>>)>>))
>>
BaseSet == {Base[k] : k \in 1..BaseCount}

D(ds) == [k \in 1..Len(ds) |-> 48 + ds[k]]
Boundary == {
  D(<<2,1,4,7,4,8,3,6,4,7>>),                          \* 2^31-1
  D(<<2,1,4,7,4,8,3,6,4,8>>),                          \* 2^31
  D(<<9,2,2,3,3,7,2,0,3,6,8,5,4,7,7,5,8,0,6>>),        \* 2^63-2
  D(<<9,2,2,3,3,7,2,0,3,6,8,5,4,7,7,5,8,0,7>>),        \* 2^63-1
  D(<<9,2,2,3,3,7,2,0,3,6,8,5,4,7,7,5,8,0,8>>),        \* 2^63
  D(<<1,0,0,0,0,0,0,0,0,0,0,0,0,0>>),                  \* 10^13
  D(<<9,9,9,9,9,9,9,9,9,9,9>>),                        \* 99999999999
  D(<<1,0,4,8,5,7,7>>),                                \* 2^20+1
  <<MINUS, 49>>,                                       \* -1
  <<MINUS>> \o D(<<9,2,2,3,3,7,2,0,3,6,8,5,4,7,7,5,8,0,8>>),   \* -2^63
  <<>>,                                                \* empty
  <<PLUS, 53>>,                                        \* +5
  <<49, 120>>,                                         \* 1x
  <<48, 48, 49>>                                       \* 001
}

Splice(a, i, b, j) == SubSeq(a, 1, i) \o SubSeq(b, j, Len(b))

Headers(s) == {i \in 1..Len(s) : s[i] \in {STAR, DOLLAR}}
ReplaceNumber(s, i, r) == LET j == ScanLine(s, i + 1) IN SubSeq(s, 1, i) \o r \o SubSeq(s, j, Len(s))

Mutants(s) ==
       {SubSeq(s, 1, i) : i \in 0..(Len(s) - 1)}                                           \* truncate
  \cup {SubSeq(s, 1, i - 1) \o SubSeq(s, i + 1, Len(s)) : i \in 1..Len(s)}                 \* delete
  \cup {SubSeq(s, 1, i) \o SubSeq(s, i, Len(s)) : i \in 1..Len(s)}                         \* duplicate
  \cup {[s EXCEPT ![i] = x] : i \in 1..Len(s), x \in Alphabet}                             \* flip
  \cup {Splice(s, i, b, j) : i \in 0..Len(s), b \in BaseSet, j \in {1, 2, 5}}              \* splice
  \cup {ReplaceNumber(s, i, r) : i \in Headers(s), r \in Boundary}                         \* edit length/count

VARIABLES ms, mn
MutInit == /\ ms \in BaseSet /\ mn = 0
           /\ stream = <<>> /\ deliv = 0 /\ closed = FALSE /\ pos = 0 /\ pc = "gen" /\ kind = ""
           /\ acc = <<>> /\ need = 0 /\ stack = <<>> /\ out = <<>>
MutNext == /\ mn < MaxMut
           /\ ms' \in Mutants(ms) /\ mn' = mn + 1
           /\ UNCHANGED vars
MutSpec == MutInit /\ [][MutNext]_<<vars, ms, mn>>
MutExport == mn >= 1 => PrintT(<<"SCENARIO", ToJson([input |-> ms, mutations |-> mn])>>)

MCInit == Init /\ ms = <<>> /\ mn = 0
MCNext == Next /\ UNCHANGED <<ms, mn>>
MCSpec == MCInit /\ [][MCNext]_<<vars, ms, mn>>
=============================================================================
