------------------------------ MODULE MC_C17 ------------------------------
(* C17, design level: the recursive matcher Glob!Match agrees with an       *)
(* independent formulation (simulation of the pattern as an NFA over sets   *)
(* of pattern positions) on every pattern and key of the bounded universe,  *)
(* and has the algebraic properties the property names.                     *)
EXTENDS Glob, FiniteSets, TLC
CONSTANTS Alpha, MaxLen
VARIABLES p, k

Strings == UNION {[1..n -> Alpha] : n \in 0..MaxLen}

\* epsilon closure: a position at '*' may also skip it
RECURSIVE Close(_, _)
Close(pat, S) == LET T == S \cup {i + 1 : i \in {j \in S : j <= Len(pat) /\ pat[j] = STARB}} IN IF T = S THEN S ELSE Close(pat, T)
StepSet(pat, S, c) == Close(pat, {i + 1 : i \in {j \in S : j <= Len(pat) /\ pat[j] # STARB /\ (pat[j] = QMARK \/ pat[j] = c)}}
                                  \cup {j \in S : j <= Len(pat) /\ pat[j] = STARB})
RECURSIVE Run(_, _, _, _)
Run(pat, key, i, S) == IF i > Len(key) THEN S ELSE Run(pat, key, i + 1, StepSet(pat, S, key[i]))
NFAMatch(pat, key) == (Len(pat) + 1) \in Run(pat, key, 1, Close(pat, {1}))

Init == p \in Strings /\ k \in Strings
Next == UNCHANGED <<p, k>>
Spec == Init /\ [][Next]_<<p, k>>

Agree == MatchRec(p, k) = NFAMatch(p, k) /\ Match(p, k) = MatchRec(p, k)
Literal == (\A i \in 1..Len(p) : p[i] \notin {STARB, QMARK}) => (Match(p, k) <=> p = k)
StarAll == Match(<<STARB>>, k)
QLen == (\A i \in 1..Len(p) : p[i] = QMARK) => (Match(p, k) <=> Len(k) = Len(p))
=============================================================================
