SPECIFICATION Spec
CONSTANTS
  NConn = 2
  MaxLen = 4
  Sim = FALSE
  SimLen = 0
INVARIANTS Defaults Export
PROPERTIES OwnStateOnly
CHECK_DEADLOCK FALSE
