SPECIFICATION Spec
CONSTANTS
  MaxLen = 4
  Chunkings = {"whole", "perreq", "bytes", "allsplits", "nextsplits"}
  SplitMaxLen = 2
INVARIANTS RepliesNeverOutrun RepliedBeforeBlocking QuitStops AllAnswered Export
CHECK_DEADLOCK FALSE
