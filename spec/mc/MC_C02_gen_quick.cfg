SPECIFICATION GenSpec
CONSTANTS
  Streams <- AllStreams
  MaxDeclared = 1000
  PoolSize = 10
  Triples = FALSE
INVARIANTS GenExport
CHECK_DEADLOCK FALSE
