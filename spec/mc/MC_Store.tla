----------------------------- MODULE MC_Store -----------------------------
(***************************************************************************)
(* Command-program generator for C12 / C18 / C07: programs over a small    *)
(* pool of keys, fields/members and values for one data type (plus the     *)
(* generic commands on that type's keys), so that collisions, re-adds,     *)
(* renames onto existing or identical keys and pops beyond the end are     *)
(* frequent.  Exhaustive mode exports every program up to MaxLen; in       *)
(* simulation mode (Sim) TLC's random walks export programs of SimLen.     *)
(* While generating, TLC also RUNS each program on RedisModel and checks   *)
(* model-level sanity invariants (types never change under a key's         *)
(* commands, empty aggregates are removed).                                *)
(***************************************************************************)
EXTENDS RedisModel, TLC, Json
CONSTANTS Type,      \* "string" | "hash" | "list" | "set" | "zset"
          TwoKeys,   \* use two keys (else one) in the exhaustive pool
          MaxLen, Sim, SimLen,
          Handler    \* "example" | "ref"
VARIABLES prog, ks
vars == <<prog, ks>>

T(k, s) == [k |-> k, s |-> s, n |-> 0, big |-> "", f |-> "", fs |-> "", ex |-> FALSE, w |-> "", cs |-> "", b |-> <<>>]
I(n) == [T("int", "") EXCEPT !.n = n]
W(w) == [T("word", "") EXCEPT !.w = w]
FL(f) == [T("float", "") EXCEPT !.f = f]
BX(f) == [T("bound", "") EXCEPT !.f = f, !.ex = TRUE]
C(name, args) == [cls |-> "prog", name |-> name, args |-> args]

\* byte values of the symbols used here (so that the model can run the program while generating)
Bytes0 == [x \in {"ka", "kb", "va", "vb", "fa", "fb", "ma", "mb", "mc", "5", "s:crlf", "s:empty", "k*", "*"} |->
  CASE x = "ka" -> <<107, 97>> [] x = "kb" -> <<107, 98>> [] x = "va" -> <<118, 97>> [] x = "vb" -> <<118, 98>>
    [] x = "fa" -> <<102, 97>> [] x = "fb" -> <<102, 98>> [] x = "ma" -> <<109, 97>> [] x = "mb" -> <<109, 98>> [] x = "mc" -> <<109, 99>>
    [] x = "5" -> <<53>> [] x = "s:crlf" -> <<97, 13, 10, 98>> [] x = "s:empty" -> <<>> [] x = "k*" -> <<107, 42>> [] x = "*" -> <<42>>]
S(s) == [T("str", s) EXCEPT !.b = Bytes0[s]]

Keys == IF TwoKeys \/ Sim THEN {S("ka"), S("kb")} ELSE {S("ka")}
Vals == {S("va"), S("vb"), S("s:crlf")}
Flds == {S("fa"), S("fb")}
Mems == {S("ma"), S("mb"), S("mc")}
Scores == {I(1), I(2), I(3)}

Generic == {C("DEL", <<k>>) : k \in Keys} \cup {C("DEL", <<k, k2>>) : k \in Keys, k2 \in Keys} \cup {C("EXISTS", <<k, k>>) : k \in Keys}
      \cup {C("EXISTS", <<k>>) : k \in Keys} \cup {C("TYPE", <<k>>) : k \in Keys}
      \cup {C("RENAME", <<k, k2>>) : k \in Keys, k2 \in Keys \cup {S("kb")}} \cup {C("RENAMENX", <<k, k2>>) : k \in Keys, k2 \in Keys \cup {S("kb")}}
      \cup {C("KEYS", <<S("*")>>), C("KEYS", <<S("k*")>>), C("keys", <<S("kb")>>)}
      \* expiry (times far longer than a run; 0 deletes): which commands keep, clear, set or move it
      \cup {C("EXPIRE", <<k, I(t)>>) : k \in Keys, t \in {100, 200, 0}} \cup {C("TTL", <<k>>) : k \in Keys}
      \cup {C("EXPIRE", <<S("ka"), I(150), W(w)>>) : w \in {"NX", "XX", "GT", "LT"}}

StringCmds ==
       {C("SET", <<k, v>>) : k \in Keys, v \in Vals \cup {S("5"), S("s:empty")}} \cup {C("GET", <<k>>) : k \in Keys}
  \cup {C("GETSET", <<k, v>>) : k \in Keys, v \in {S("va"), S("vb")}} \cup {C("SETNX", <<k, v>>) : k \in Keys, v \in {S("va"), S("vb")}}
  \cup {C("SET", <<k, S("vb"), W("XX")>>) : k \in Keys} \cup {C("SET", <<k, S("va"), W("GET")>>) : k \in Keys}
  \cup {C("SET", <<S("ka"), S("vb"), W("KEEPTTL")>>), C("SET", <<S("ka"), S("va"), W("EX"), I(300)>>), C("SETEX", <<S("ka"), I(400), S("vb")>>)}
  \* a key that expires during the program: SET .. PX 30, then (pseudo-command, only while such a key exists) a pause of 80 ms;
  \* the driver turns SLEEP into a real pause between two batches of requests
  \cup {C("SET", <<k, S("vb"), W("PX"), I(30)>>) : k \in Keys} \cup {C("SLEEP", <<I(80)>>)}
  \cup {C("APPEND", <<k, v>>) : k \in Keys, v \in {S("va"), S("s:crlf"), S("5")}} \cup {C("STRLEN", <<k>>) : k \in Keys}
  \cup {C("GETRANGE", <<k, I(a), I(b)>>) : k \in Keys, a \in {0, 1, 0 - 2}, b \in {0 - 1, 1, 5}}
  \cup {C("INCR", <<k>>) : k \in Keys} \cup {C("DECR", <<k>>) : k \in Keys}
  \cup {C("INCRBY", <<k, I(5)>>) : k \in Keys} \cup {C("DECRBY", <<k, I(7)>>) : k \in Keys}
  \cup {C("MSET", <<S("ka"), v, S("kb"), S("vb")>>) : v \in {S("va"), S("5")}} \cup {C("MSET", <<S("ka"), S("va"), S("ka"), S("vb")>>)}
  \cup {C("MSETNX", <<S("ka"), S("va"), S("kb"), S("vb")>>), C("MSETNX", <<S("kb"), S("vb")>>), C("MGET", <<S("ka"), S("kb"), S("ka")>>)}
  \cup {C("MSETNX", <<S("ka"), S("va"), S("ka"), S("vb")>>), C("MSETNX", <<S("kb"), S("va"), S("ka"), S("vb"), S("kb"), S("s:crlf")>>)}   \* a key given twice: the last value

HashCmds ==
       {C("HSET", <<k, f, v>>) : k \in Keys, f \in Flds, v \in Vals} \cup {C("HSETNX", <<k, f, S("vb")>>) : k \in Keys, f \in Flds}
  \cup {C("HGET", <<k, f>>) : k \in Keys, f \in Flds} \cup {C("HDEL", <<k, f>>) : k \in Keys, f \in Flds} \cup {C("HDEL", <<k, S("fa"), S("fb"), S("fa")>>) : k \in Keys}
  \cup {C("HGETALL", <<k>>) : k \in Keys} \cup {C("HKEYS", <<k>>) : k \in Keys} \cup {C("HVALS", <<k>>) : k \in Keys} \cup {C("HLEN", <<k>>) : k \in Keys}
  \cup {C("HMSET", <<k, S("fa"), S("va"), S("fb"), S("vb")>>) : k \in Keys} \cup {C("HMSET", <<k, S("fa"), S("va"), S("fa"), S("s:crlf")>>) : k \in Keys}
  \cup {C("HMGET", <<k, S("fb"), S("fa"), S("fb")>>) : k \in Keys} \cup {C("HEXISTS", <<k, f>>) : k \in Keys, f \in Flds} \cup {C("HSTRLEN", <<k, f>>) : k \in Keys, f \in Flds}

ListCmds ==
       {C(p, <<k, v>>) : p \in {"LPUSH", "RPUSH", "LPUSHX", "RPUSHX"}, k \in Keys, v \in {S("va"), S("vb")}}
  \cup {C(p, <<k, S("va"), S("vb"), S("s:crlf")>>) : p \in {"LPUSH", "RPUSH"}, k \in Keys}
  \cup {C(p, <<k>>) : p \in {"LPOP", "RPOP", "LLEN"}, k \in Keys} \cup {C(p, <<k, I(2)>>) : p \in {"LPOP", "RPOP"}, k \in Keys}
  \cup {C("LRANGE", <<k, I(a), I(b)>>) : k \in Keys, a \in {0, 1, 0 - 2}, b \in {0 - 1, 1, 0}} \cup {C("LINDEX", <<k, I(i)>>) : k \in Keys, i \in {0, 0 - 1, 2}}

SetCmds ==
       {C("SADD", <<k, m>>) : k \in Keys, m \in Mems} \cup {C("SADD", <<k, S("ma"), S("mb"), S("ma")>>) : k \in Keys}
  \cup {C("SREM", <<k, m>>) : k \in Keys, m \in Mems} \cup {C("SREM", <<k, S("ma"), S("mc"), S("ma")>>) : k \in Keys}
  \cup {C(p, <<k>>) : p \in {"SMEMBERS", "SCARD"}, k \in Keys} \cup {C("SISMEMBER", <<k, m>>) : k \in Keys, m \in {S("ma"), S("mc")}}

ZSetCmds ==
       {C("ZADD", <<k, s, m>>) : k \in Keys, s \in Scores, m \in Mems} \cup {C("ZADD", <<k, I(2), S("ma"), I(1), S("mb"), I(2), S("mc")>>) : k \in Keys}
  \cup {C("ZREM", <<k, m>>) : k \in Keys, m \in {S("ma"), S("mb")}} \cup {C("ZSCORE", <<k, m>>) : k \in Keys, m \in {S("ma"), S("mc")}}
  \cup {C("ZCARD", <<k>>) : k \in Keys} \cup {C("ZINCRBY", <<k, I(2), m>>) : k \in Keys, m \in {S("ma"), S("mb")}}
  \cup {C("ZRANGE", <<k, I(0), I(0 - 1)>>) : k \in Keys} \cup {C("ZRANGE", <<k, I(0), I(0 - 1), W("WITHSCORES")>>) : k \in Keys}
  \cup {C("ZRANGE", <<k, I(1), I(2)>>) : k \in Keys} \cup {C("ZRANGE", <<k, I(0), I(1), W("REV")>>) : k \in Keys}
  \cup {C("ZRANGE", <<k, I(1), I(3), W("BYSCORE")>>) : k \in Keys} \cup {C("ZRANGE", <<k, I(3), I(1), W("BYSCORE"), W("REV"), W("LIMIT"), I(0), I(1)>>) : k \in Keys}
  \cup {C("ZRANGEBYSCORE", <<k, I(1), I(2)>>) : k \in Keys} \cup {C("ZRANGEBYSCORE", <<k, FL("-inf"), FL("+inf"), W("WITHSCORES")>>) : k \in Keys}
  \cup {C("ZRANGEBYSCORE", <<k, BX("1"), I(3)>>) : k \in Keys} \cup {C("ZRANGEBYSCORE", <<k, I(1), I(3), W("LIMIT"), I(1), I(1)>>) : k \in Keys}
  \cup {C("ZRANGEBYSCORE", <<k, I(0), I(10), W("LIMIT"), I(5), I(2)>>) : k \in Keys}
  \cup {C("ZREVRANGE", <<k, I(0), I(1)>>) : k \in Keys} \cup {C("ZREVRANGE", <<k, I(0), I(0 - 1), W("WITHSCORES")>>) : k \in Keys} \cup {C("ZREVRANGE", <<k, I(1), I(5)>>) : k \in Keys}
  \cup {C("ZREVRANGEBYSCORE", <<k, I(3), I(1)>>) : k \in Keys} \cup {C("ZREVRANGEBYSCORE", <<k, FL("+inf"), FL("-inf"), W("LIMIT"), I(0), I(1)>>) : k \in Keys}
  \cup {C("ZREVRANGEBYSCORE", <<k, I(3), BX("1"), W("WITHSCORES")>>) : k \in Keys}

Cmds == Generic \cup (CASE Type = "string" -> StringCmds [] Type = "hash" -> HashCmds [] Type = "list" -> ListCmds
                        [] Type = "set" -> SetCmds [] Type = "zset" -> ZSetCmds)

\* tokens of word/int/float kinds have no bytes in the generator; the model only needs bytes of string tokens
Run(k, c) == IF c.name = "SLEEP" THEN Advance(k, c.args[1].n) ELSE
             LET r == Exec(k, IF c.name = "keys" THEN "KEYS" ELSE c.name, c.args) IN IF r.cmp \in {"any", "error"} THEN k ELSE r.ks

Init == prog = <<>> /\ ks = EmptyKS
\* (in simulation TLC evaluates invariants on every successor it generates, so the last step of a random walk is a
\* fixed command: one exported program per walk)
Last == C("KEYS", <<S("*")>>)
Next == /\ Len(prog) < (IF Sim THEN SimLen ELSE MaxLen)
        /\ \E c \in (IF Sim /\ Len(prog) = SimLen - 1 THEN {Last} ELSE Cmds) :
              \* a key about to expire is never observed before the pause: real time runs ahead of the model clock by an
              \* unknown amount (RedisModel!Slack), so whether such a key is still there is not determined
              /\ (c.name = "SLEEP" <=> \E k \in DOMAIN ks : ks[k].x > 0 /\ ks[k].x <= 1000)
              /\ prog' = Append(prog, c) /\ ks' = Run(ks, c)
Spec == Init /\ [][Next]_vars

\* model sanity: this generator only ever produces modelled commands; aggregates never exist empty; one type per key
Modelled == prog = <<>> => \A c \in Cmds \ {C("SLEEP", <<I(80)>>)} : Exec(EmptyKS, IF c.name = "keys" THEN "KEYS" ELSE c.name, c.args).cmp # "any"
NoEmptyAggregates == \A k \in DOMAIN ks : CASE ks[k].ty = "list" -> ks[k].l # <<>> [] ks[k].ty = "set" -> ks[k].s # {}
                                              [] ks[k].ty = "hash" -> ks[k].h # {} [] ks[k].ty = "zset" -> ks[k].z # {} [] OTHER -> TRUE
OneType == \A k \in DOMAIN ks : ks[k].ty = Type

Scenario == [handler |-> Handler, tracer |-> FALSE, nconns |-> 1, model |-> TRUE,
             steps |-> <<[c |-> 0, op |-> "send", chunking |-> "perreq", reqs |-> prog]>>]
Export == (IF Sim THEN Len(prog) = SimLen ELSE Len(prog) >= 1) => PrintT(<<"SCENARIO", ToJson(Scenario)>>)
=============================================================================
