----------------------------- MODULE TraceRESP -----------------------------
(* Trace specification for the codec-level properties (C01, C06).  Events   *)
(* are independent observations of the real serializer/parser; each is      *)
(* judged against RESP.tla.  An event that satisfies its predicate prints    *)
(* <<"OK", sc>>; the driver treats every scenario without an OK as rejected. *)
EXTENDS RESP, TLC, Json, SequencesExt
CONSTANT TraceFile
VARIABLE l

Trace == ndJsonDeserialize(TraceFile)

Eof == [t |-> "eof"]

AccOK(e) ==
  CASE e.v.t \in {"str", "err", "int", "bulk"} -> e.acc = [k |-> "bytes", p |-> e.v.p]
    [] e.v.t = "null" -> e.acc.k = "nil"
    [] e.v.t = "arr"  -> e.acc = [k |-> "arr", n |-> Len(e.v.e)]
    [] OTHER -> FALSE

(* C01: constructors -> bytes -> parser -> bytes, and canonical bytes ->     *)
(* parser -> bytes.                                                          *)
RoundTripOK(e) ==
  /\ e.fail = ""
  /\ e.ser = Enc(e.v)                       \* serializer output is the canonical encoding
  /\ e.parsed = e.v                         \* same type, payload and structure
  /\ e.second = Eof                         \* exactly its own bytes were consumed
  /\ e.reser = e.ser                        \* re-serializing reproduces the bytes
  /\ AccOK(e)                               \* accessors give back the Go value
  /\ ("enc" \in DOMAIN e =>
        /\ e.enc = Enc(e.v)
        /\ e.parsed2 = e.v
        /\ e.second2 = Eof
        /\ e.reser2 = e.enc)

(* strconv float literal grammar (the part that can be stated without reals) *)
IsFloatText(p) ==
  \/ p \in {<<43,73,110,102>>, <<45,73,110,102>>, <<78,97,78>>}      \* +Inf -Inf NaN
  \/ /\ Len(p) >= 1
     /\ \A k \in 1..Len(p) : IsDigit(p[k]) \/ p[k] \in {43, 45, 46, 101}   \* + - . e
     /\ \E k \in 1..Len(p) : IsDigit(p[k])

FloatOK(e) ==
  /\ e.ser = Enc(Bulk(e.payload))
  /\ e.parsed = Bulk(e.payload)
  /\ e.second = Eof
  /\ IsFloatText(e.payload)
  /\ e.bitexact                              \* auxiliary Go assertion (no floats in TLC)

(* C06: totality on hostile input.  res = results of successive Next() calls *)
IsOutcome(r) == r.t \in {"str", "err", "int", "bulk", "null", "arr", "eof", "error"}

RECURSIVE PrefixMatches(_, _, _)
PrefixMatches(res, vals, k) ==
  k > Len(vals) \/ (k <= Len(res) /\ res[k] = Lenient(vals[k]) /\ PrefixMatches(res, vals, k + 1))

HostileOK(e) ==
  LET ds == DecStream(e.input) IN
  /\ e.alive                                                   \* the process survived
  /\ Len(e.res) >= 1
  /\ \A k \in 1..Len(e.res) : IsOutcome(e.res[k]) /\ ~HasAbsent(e.res[k])   \* Total, NoAbsentElements
  /\ e.res[Len(e.res)].t \in {"eof", "error"}                   \* the sequence of calls ends
  /\ PrefixMatches(e.res, ds.vals, 1)                           \* SoundOnValid
  /\ (ds.st = "complete" => Len(e.res) = Len(ds.vals) + 1 /\ e.res[Len(e.res)] = Eof)

(* C06, inputs too large to log: n array headers "*1" nested in one another,  *)
(* then a leaf (complete) or nothing (cut off).  Only outcome types are      *)
(* logged.  A parser may bound the nesting it accepts (it recurses), but the *)
(* bound may not be small: a complete value nested up to MinDepth deep is    *)
(* returned as a value.                                                      *)
MinDepth == 1000
HostileBigOK(e) ==
  /\ e.alive                                                    \* no stack overflow, no abort
  /\ Len(e.res) >= 1
  /\ \A k \in 1..Len(e.res) : e.res[k].t \in {"str", "err", "int", "bulk", "null", "arr", "eof", "error"}
  /\ e.res[Len(e.res)].t \in {"eof", "error"}
  /\ (e.gen = "nest" /\ e.complete /\ e.n <= MinDepth => Len(e.res) = 2 /\ e.res[1].t = "arr" /\ e.res[2].t = "eof")
  /\ (e.gen = "nest" /\ ~e.complete => Len(e.res) = 1 /\ e.res[1].t = "error")   \* end of stream inside an array is an error

(* C04 on a real socket: a client that stopped reading in the middle of a     *)
(* large bulk reply and went on later.  Either the bulk arrived completely   *)
(* (declared length, CR LF) and the next reply follows, or the server gave   *)
(* the client up and the stream simply ends; bytes of another reply after a  *)
(* torn frame are what C04 excludes.                                         *)
BigReadOK(e) ==
  \/ /\ e.declared >= 0 /\ e.payload = e.declared /\ e.term = CRLF
     /\ e.rest = Enc(Str(<<80, 79, 78, 71>>))
  \/ /\ e.eof /\ e.rest = <<>> /\ e.term = <<>>

(* C02: a stream of canonical encodings delivered in the logged chunks.      *)
\* (the sum of the chunk sizes is a fold with a Java implementation: a user-level recursion tens of thousands deep -
\* one level per chunk of a bytewise delivery - costs TLC minutes)
RECURSIVE EndsOK(_, _, _, _)
EndsOK(b, ends, i, k) == k > Len(ends) \/ LET r == Dec(b, i) IN
                           r.ok /\ ends[k] = r.next - 1 /\ EndsOK(b, ends, r.next, k + 1)

ChunkedOK(e) ==
  LET ds == DecStream(e.stream) IN
  /\ ds.st = "complete"                          \* the driver sent a valid stream
  /\ FoldLeft(LAMBDA a, c : a + c, 0, e.chunks) = Len(e.stream)   \* ... split into these reads
  /\ e.res = LenientSeq(ds.vals) \o <<Eof>>     \* exactly those values, in order, then end of stream
  /\ Len(e.ends) = Len(ds.vals)
  /\ EndsOK(e.stream, e.ends, 1, 1)              \* each value consumed exactly its own bytes
  /\ e.left = 0                                  \* nothing left behind

(* A periodic stream: `unit` (one complete value) repeated e.run times, then *)
(* `tail` (a few complete values).  The expected result follows from the    *)
(* decoding of unit and tail alone, so runs far beyond any per-stream limit  *)
(* of the parser (10000 and more values) cost the specification little.      *)
ChunkedRunOK(e) ==
  LET du == DecStream(e.unit)
      dt == DecStream(e.tail)
      ul == Len(e.unit)
      nt == Len(dt.vals)
  IN
  /\ du.st = "complete" /\ Len(du.vals) = 1 /\ dt.st = "complete"
  /\ FoldLeft(LAMBDA a, c : a + c, 0, e.chunks) = e.run * ul + Len(e.tail)
  /\ Len(e.res) = e.run + nt + 1
  /\ \A i \in 1..e.run : e.res[i] = Lenient(du.vals[1])
  /\ \A j \in 1..nt : e.res[e.run + j] = Lenient(dt.vals[j])
  /\ e.res[e.run + nt + 1] = Eof
  /\ Len(e.ends) = e.run + nt
  /\ \A i \in 1..e.run : e.ends[i] = i * ul
  /\ EndsOK(e.tail, [j \in 1..nt |-> e.ends[e.run + j] - e.run * ul], 1, 1)
  /\ e.left = 0

(* A connection that is quiet between two requests (real sockets, plain and  *)
(* TLS): it is served before and after, however long the pause (C03, C15).    *)
IdleOK(e) == e.before = "pong" /\ e.after = "pong"

Check(e) == CASE e.ev = "rt"      -> RoundTripOK(e)
              [] e.ev = "idle"    -> IdleOK(e)
              [] e.ev = "chunkedrun" -> ChunkedRunOK(e)
              [] e.ev = "chunked" -> ChunkedOK(e)
              [] e.ev = "float"   -> FloatOK(e)
              [] e.ev = "hostile" -> HostileOK(e)
              [] e.ev = "hostilebig" -> HostileBigOK(e)
              [] e.ev = "bigread" -> BigReadOK(e)
              [] OTHER            -> FALSE

Init == l = 1
Next == /\ l <= Len(Trace)
        /\ l' = l + 1
        /\ (Check(Trace[l]) => PrintT(<<"OK", Trace[l].sc>>))
Spec == Init /\ [][Next]_l
=============================================================================
