-------------------------------- MODULE Sync --------------------------------
(***************************************************************************)
(* C14, design level: the shared locations of the framework, the access    *)
(* sites of each goroutine kind with the lock they hold, and the           *)
(* happens-before edges the code creates (go statement, mutex release ->   *)
(* acquire, closing a listener -> Accept error).  TLC explores every       *)
(* interleaving of the goroutines' access programs with vector clocks      *)
(* (FastTrack style) and checks that no two conflicting accesses are       *)
(* concurrent.                                                             *)
(*                                                                         *)
(* Locations: cfg (Config.params), reg (ConnManager.m), epoch              *)
(* (ConnManager.epoch), lst (Server.portListener), closed1/closed2         *)
(* (Conn.isClosed of two connections).  Locks: cfgL (Config.mutex), regL   *)
(* (ConnManager.mutex), cm1/cm2 (Conn.closeMutex).                         *)
(* Guarded = TRUE is the design the property needs; with FALSE the         *)
(* configuration map and isClosed are accessed without their locks (the    *)
(* code before the repairs) and RaceFree must fail.                        *)
(***************************************************************************)
EXTENDS Integers, Sequences, FiniteSets, TLC
CONSTANT Guarded

Threads == {"ctl", "loop", "c1", "c2", "obs"}
Locks == {"cfgL", "regL", "cm1", "cm2", "none"}
Locs == {"cfg", "reg", "epoch", "lst", "closed1", "closed2"}

\* an access under a lock is one atomic step (the critical sections are single accesses)
Rd(l, x) == <<"rd", l, x>>
Wr(l, x) == <<"wr", l, x>>
G(l) == IF Guarded THEN l ELSE "none"

Prog == [t \in Threads |->
  CASE t = "ctl" -> << Wr(G("cfgL"), "cfg"),                      \* SetPort / SetRequirePass before Start
                       Rd(G("cfgL"), "cfg"), Wr("none", "lst"),   \* Start: reads the ports, opens the listener
                       Rd("regL", "epoch"), <<"fork", "loop">>,  \*        reads the epoch, spawns the accept loop
                       Rd(G("cfgL"), "cfg"),                      \* Stop: reads the ports ...
                       Wr("regL", "epoch"), Rd("regL", "reg"),   \*       new epoch, snapshot of the registry
                       Wr(G("cm1"), "closed1"), Wr("regL", "reg"),  \*    closes a registered connection, removes it
                       Wr("none", "lst"), <<"signal", "close">> >>  \*    closes the listener (Accept fails)
    [] t = "loop" -> << <<"fork", "c1">>, <<"fork", "c2">>, <<"wait", "close">> >>
    [] t = "c1" -> << Rd(G("cfgL"), "cfg"),                       \* receive: requirepass
                      Wr("regL", "reg"),                          \* AddConnInEpoch (reads epoch under the same lock)
                      Wr(G("cfgL"), "cfg"),                       \* CONFIG SET
                      Wr("regL", "reg"),                          \* RemoveConn
                      Wr(G("cm1"), "closed1") >>                  \* Close
    [] t = "c2" -> << Rd(G("cfgL"), "cfg"), Wr("regL", "reg"),
                      Rd(G("cfgL"), "cfg"),                       \* CONFIG GET
                      Wr("regL", "reg"), Wr(G("cm2"), "closed2") >>
    [] t = "obs" -> << Rd("regL", "reg"), Rd("regL", "reg") >> ]  \* Conns() from an application goroutine

VARIABLES pc, started, vc, lvc, cvc, sig, lastw, lastr, raced
vars == <<pc, started, vc, lvc, cvc, sig, lastw, lastr, raced>>

Zero == [t \in Threads |-> 0]
Join(a, b) == [t \in Threads |-> IF a[t] > b[t] THEN a[t] ELSE b[t]]
Tick(v, t) == [v EXCEPT ![t] = v[t] + 1]

Init == /\ pc = [t \in Threads |-> 1]
        /\ started = [t \in Threads |-> t \in {"ctl", "obs"}]
        /\ vc = [t \in Threads |-> [Zero EXCEPT ![t] = 1]]
        /\ lvc = [l \in Locks |-> Zero] /\ cvc = Zero /\ sig = FALSE
        /\ lastw = [x \in Locs |-> [t |-> "none", c |-> 0]]
        /\ lastr = [x \in Locs |-> Zero]
        /\ raced = {}

WriteOrdered(x, v) == lastw[x].t = "none" \/ lastw[x].c <= v[lastw[x].t]
ReadsOrdered(x, v) == \A u \in Threads : lastr[x][u] <= v[u]

Step(t) ==
  /\ started[t] /\ pc[t] <= Len(Prog[t])
  /\ LET op == Prog[t][pc[t]] IN
     /\ pc' = [pc EXCEPT ![t] = pc[t] + 1]
     /\ CASE op[1] \in {"rd", "wr"} ->
              LET l == op[2] x == op[3]
                  v == IF l = "none" THEN vc[t] ELSE Join(vc[t], lvc[l]) IN      \* acquire
              /\ raced' = IF (op[1] = "rd" /\ ~WriteOrdered(x, v)) \/ (op[1] = "wr" /\ ~(WriteOrdered(x, v) /\ ReadsOrdered(x, v)))
                          THEN raced \cup {x} ELSE raced
              /\ lastw' = IF op[1] = "wr" THEN [lastw EXCEPT ![x] = [t |-> t, c |-> v[t]]] ELSE lastw
              /\ lastr' = IF op[1] = "rd" THEN [lastr EXCEPT ![x][t] = v[t]] ELSE lastr
              /\ lvc' = IF l = "none" THEN lvc ELSE [lvc EXCEPT ![l] = v]          \* release
              /\ vc' = [vc EXCEPT ![t] = Tick(v, t)]
              /\ UNCHANGED <<started, cvc, sig>>
          [] op[1] = "fork" ->
              /\ started' = [started EXCEPT ![op[2]] = TRUE]
              /\ vc' = [vc EXCEPT ![op[2]] = Join(vc[op[2]], vc[t]), ![t] = Tick(vc[t], t)]
              /\ UNCHANGED <<lvc, cvc, sig, lastw, lastr, raced>>
          [] op[1] = "signal" ->
              /\ cvc' = Join(cvc, vc[t]) /\ sig' = TRUE
              /\ vc' = [vc EXCEPT ![t] = Tick(vc[t], t)]
              /\ UNCHANGED <<started, lvc, lastw, lastr, raced>>
          [] op[1] = "wait" ->
              /\ sig
              /\ vc' = [vc EXCEPT ![t] = Join(vc[t], cvc)]
              /\ UNCHANGED <<started, lvc, cvc, sig, lastw, lastr, raced>>

Next == \E t \in Threads : Step(t)
Spec == Init /\ [][Next]_vars

RaceFree == raced = {}
=============================================================================
