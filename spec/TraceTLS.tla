------------------------------ MODULE TraceTLS ------------------------------
(* Trace specification for C09: per scenario the configuration, then one    *)
(* event per client (credential, fault, what was observed) and one probe    *)
(* event after each client.  <<"OK", sc>> iff every event satisfies the     *)
(* policy of TLSGate.tla.                                                   *)
EXTENDS TLSGate, Json
CONSTANTS TraceFile, Diagnose
VARIABLES l, cfg
Trace == ndJsonDeserialize(TraceFile)
Cfg0 == [rule |-> FALSE, pass |-> FALSE, custom |-> ""]
Init == l = 1 /\ cfg = Cfg0
Handle(e) ==
  CASE e.ev = "scenario" -> cfg' = [rule |-> e.rule, pass |-> e.pass, custom |-> e.custom]
    [] e.ev = "tlsclient" -> (IF cfg.custom \in {"", "verify"} THEN ClientOK(e, cfg) ELSE ClientOKCustom(e, cfg)) /\ UNCHANGED cfg
    [] e.ev = "probe"     -> ContainedOK(e) /\ UNCHANGED cfg
    [] e.ev = "point"     -> UNCHANGED cfg
    [] OTHER -> FALSE
Step == l <= Len(Trace) /\ Trace[l].ev # "end" /\ Handle(Trace[l]) /\ l' = l + 1
End == l <= Len(Trace) /\ Trace[l].ev = "end" /\ PrintT(<<"OK", Trace[l].sc>>) /\ l' = l + 1 /\ cfg' = Cfg0
GiveUp == ~Diagnose /\ l <= Len(Trace) /\ l' = Trace[l].end + 1 /\ cfg' = Cfg0
DiagAt == Diagnose => PrintT(<<"AT", l>>)
Next == Step \/ End \/ GiveUp
Spec == Init /\ [][Next]_<<l, cfg>>
=============================================================================
