-------------------------------- MODULE Conn --------------------------------
(***************************************************************************)
(* The per-connection loop of the server at the level the properties talk  *)
(* about: requests received completely, handler calls, one reply frame per *)
(* request, the connection's authorization / database / user data, QUIT,   *)
(* end of stream, release of the connection, tracing spans.                *)
(*                                                                         *)
(* Everything is a pure function of a connection-state record, so that the *)
(* same operators define (a) the abstract model that TLC explores          *)
(* exhaustively (MC_C03, MC_C08, MC_C13 ...) and (b) the trace             *)
(* specification TraceConn.tla that judges executions of the real code.    *)
(***************************************************************************)
EXTENDS RESP, Commands, Glob, TLC

OKV   == Str(<<79, 75>>)
PONGV == Str(<<80, 79, 78, 71>>)

\* probe keys on which the handler double evaluates a compiled SCAN pattern (same list in harness/doubles.go)
Probe == << <<>>, <<97>>, <<107, 49>>, <<107, 50>>, <<97, 98>>, <<97, 46, 99>>, <<97, 98, 99>>, <<107, 42>>, <<42>>, <<120, 40, 121>> >>

\* user-data directive carried by a key symbol (handler double: conn.Store("ud", x))
UdOf == [x \in {"k:ud=a", "k:ud=b"} |-> IF x = "k:ud=a" THEN "a" ELSE "b"]

---------------------------------------------------------------------------
(* Connection state                                                        *)
NewConn(requirepass) ==
  [opened |-> TRUE,
   auth |-> ~requirepass, db |-> 0, ud |-> "",
   reqs |-> <<>>,          \* annotations of all requests whose bytes were (partly) handed to the transport
   base |-> 0,             \* number of requests of earlier batches
   ends |-> <<>>, upto |-> 0,   \* byte offsets of the current batch: end of each request, bytes delivered
   nreq |-> 0,             \* requests delivered completely
   nrep |-> 0,             \* replies written
   calls |-> <<>>,         \* handler calls since the last reply
   wbuf |-> <<>>,          \* bytes of a reply frame written so far (a frame may take several writes)
   quit |-> FALSE, closed |-> FALSE, returned |-> FALSE, lost |-> FALSE,
   wild |-> FALSE,         \* the client sends arbitrary bytes (C07 offender): replies are only required to be RESP frames
   eos |-> "none",         \* "none" | "half" | "full": how the client ended the stream
   wfail |-> FALSE,        \* a write failed (client gone)
   dropped |-> FALSE,      \* the server answered a protocol error by closing
   open |-> <<>>,          \* open spans: sequence of [id, parent]
   rootreplies |-> 0, roots |-> 0]

Idle == [opened |-> FALSE]

---------------------------------------------------------------------------
(* What the server owes for one request                                    *)
Exact(v)  == [kind |-> "exact", v |-> v]
ErrorE    == [kind |-> "error"]
OneFrameE == [kind |-> "oneframe"]

ReqExpect(cs, r, cfg) ==
  IF r.frame THEN [kind |-> "frameany"]      \* a raw frame (non-array value, odd array): any ONE frame, or the connection is closed
  ELSE IF r.name \notin (Registered \cup cfg.custom) THEN ErrorE                 \* unknown command: error, no call
  ELSE IF ~cs.auth /\ r.name # "AUTH" THEN ErrorE                                  \* password gate (C08)
  ELSE IF r.name \in cfg.custom THEN
    [kind |-> "calls", e |-> Well(<<Call("MyCmd", <<L(r.args)>>, NoOpt)>>, "seq", "result")]
  ELSE CASE
    r.name = "PING" -> IF r.args = <<>> THEN Exact(PONGV)
                       ELSE IF Len(r.args) = 1 /\ ~IsNull(r.args[1]) THEN Exact(Bulk(r.args[1].b))
                       ELSE OneFrameE
    [] r.name = "ECHO" -> IF r.args = <<>> \/ IsNull(r.args[1]) THEN ErrorE
                          ELSE IF Len(r.args) = 1 THEN Exact(Bulk(r.args[1].b))
                          ELSE OneFrameE
    [] r.name = "QUIT" -> [kind |-> "quit"]
    [] r.name = "SELECT" -> IF r.args = <<>> \/ IsNull(r.args[1]) \/ ~IsIntTok(r.args[1]) THEN ErrorE
                            ELSE IF Len(r.args) > 1 \/ ~IsSmall(r.args[1]) \/ IntVal(r.args[1]) < 0 THEN [kind |-> "selectany", t |-> r.args[1]]
                            ELSE [kind |-> "select", n |-> IntVal(r.args[1])]
    [] r.name = "AUTH" -> IF cfg.authdouble
                          THEN (IF r.args = <<>> \/ AnyNull(r.args) THEN ErrorE
                                ELSE IF Len(r.args) = 1 THEN [kind |-> "calls", e |-> One("Auth", <<[s |-> "s:empty"], S(r.args[1])>>, NoOpt)]
                                ELSE IF Len(r.args) = 2 THEN [kind |-> "calls", e |-> One("Auth", <<S(r.args[1]), S(r.args[2])>>, NoOpt)]
                                ELSE OneFrameE)
                          ELSE [kind |-> "auth"]
    [] r.name = "CONFIG" -> OneFrameE
    [] r.name \in DerivedCommands -> IF DerivedState(r.name, r.args) = "ill" THEN ErrorE ELSE [kind |-> "derived"]
    [] OTHER -> LET e == Expect(r.name, r.args) IN
                CASE e.st = "well" -> [kind |-> "calls", e |-> e]
                  [] e.st = "ill" -> ErrorE
                  [] OTHER -> OneFrameE

---------------------------------------------------------------------------
(* AUTH rule (C08), stated exactly as far as the property goes             *)
AuthAllowed(r, cfg, v) ==
  LET n == Len(r.args)
      exactAt(i) == ~IsNull(r.args[i]) /\ r.args[i].b = cfg.pw
      success == v = OKV IN
  IF ~cfg.requirepass THEN v.t \in {"str", "err"}            \* nothing configured: the property is silent
  ELSE /\ (success \/ v.t = "err")
       /\ (success => \E i \in 1..n : exactAt(i))            \* (a) necessary: the exact password was presented
       /\ (success /\ n = 1 => exactAt(1))
       /\ (success /\ n = 2 => exactAt(2) /\ ~IsNull(r.args[1]) /\ r.args[1].b = <<>>)   \* (c) no user name is configured
       /\ (n = 1 /\ exactAt(1) => success)                   \* (b) sufficient: plain AUTH <exact> succeeds
       /\ (n = 0 => ~success)

---------------------------------------------------------------------------
(* Handler calls against the grammar                                       *)
FlagsEq(a, b, fs) == \A f \in fs : a[f] = b[f]

ProbeMatches(pat) == LET idx == {i \in 1..Len(Probe) : Match(pat, Probe[i])} IN
                     [i \in 1..Cardinality(idx) |-> CHOOSE x \in idx : Cardinality({y \in idx : y < x}) = i - 1]

CallEq(exp, obs) ==
  /\ exp.m = obs.m
  /\ exp.a = obs.a
  /\ CASE exp.m = "Expire" ->
            /\ FlagsEq(exp.opt, obs.opt, {"NX", "XX", "GT", "LT"})
            /\ IF exp.opt.when.abs THEN obs.opt.unix = Num(exp.opt.when.t)
               ELSE /\ "n" \in DOMAIN obs.opt.rel_ms
                    /\ obs.opt.rel_ms.n - exp.opt.when.t * 1000 <= 0
                    /\ obs.opt.rel_ms.n - exp.opt.when.t * 1000 >= 0 - obs.lag_ms - 2
       [] exp.m = "Scan" ->
            /\ obs.opt.Count = exp.opt.Count /\ obs.opt.Type = exp.opt.Type /\ obs.opt.haspattern
            /\ obs.opt.matches = ProbeMatches(IF exp.opt.pattern.k = "default" THEN <<42>> ELSE exp.opt.pattern.b)
       [] OTHER -> exp.opt = obs.opt

HasRes(c)  == "res" \in DOMAIN c
ResOK(c)   == HasRes(c) /\ c.res.t = "val"
ResFail(c) == HasRes(c) /\ c.res.t \in {"goerr", "nilmsg", "both"}

\* does call c make its request fail?  A handler error always does; a handler returning nothing does unless the
\* framework ignores the result message (MSET, HMSET: reply "ok")
Fails(e, c) == HasRes(c) /\ (c.res.t \in {"goerr", "both"} \/ (c.res.t = "nilmsg" /\ e.reply # "ok"))
Aborts(c)   == HasRes(c) /\ c.res.t \in {"goerr", "both"}        \* the executor returns at once

\* expected calls e (Well record) against the observed calls of one request
CallsMatch(e, calls) ==
  LET n == Len(calls)
      aborted == n >= 1 /\ Aborts(calls[n]) IN
  /\ \A i \in 1..n : HasRes(calls[i])
  /\ \A i \in 1..(n - 1) : ~Aborts(calls[i])                   \* nothing is called after a handler error
  /\ n <= Len(e.calls) /\ (aborted \/ n = Len(e.calls))
  /\ IF e.order = "seq"
     THEN \A i \in 1..n : CallEq(e.calls[i], calls[i])
     ELSE /\ \A i \in 1..n : \E j \in 1..Len(e.calls) : CallEq(e.calls[j], calls[i])
          /\ \A i, j \in 1..n : i # j => calls[i].a # calls[j].a

\* the reply given the results the handler returned
ReplyFromResults(e, calls, v) ==
  LET n == Len(calls) IN
  IF \E i \in 1..n : Fails(e, calls[i]) THEN v.t = "err"       \* handler error / nothing returned -> error reply
  ELSE CASE e.reply = "ok" -> v = OKV
         [] e.reply = "result" -> IF WellFormed(calls[1].res.v) THEN v = calls[1].res.v ELSE TRUE
         [] e.reply = "array" -> IF \A i \in 1..n : WellFormed(calls[i].res.v)
                                 THEN v = Arr([i \in 1..n |-> calls[i].res.v]) ELSE TRUE

---------------------------------------------------------------------------
(* Events of one connection.  Each operator returns the new state, or      *)
(* Reject if the event is not allowed in this state.                       *)
Reject == [bad |-> TRUE]
Bad(x) == "bad" \in DOMAIN x

Live(cs) == cs.opened /\ ~cs.returned

\* the request a call or a reply belongs to
Cur(cs) == cs.reqs[cs.nrep + 1]
HasCur(cs) == cs.nrep < cs.nreq /\ ~cs.quit /\ ~cs.dropped

OnReqs(cs, rs, ends) == IF cs.opened THEN [cs EXCEPT !.reqs = cs.reqs \o rs, !.base = Len(cs.reqs), !.ends = ends, !.upto = 0,
                                                    !.wild = cs.wild \/ \E i \in 1..Len(rs) : rs[i].cls = "wild"] ELSE Reject

\* bytes handed to the transport; "complete" = requests of this batch delivered completely so far
OnSend(cs, upto, complete) == IF ~cs.opened THEN Reject ELSE [cs EXCEPT !.nreq = cs.base + complete, !.upto = upto]

\* some bytes of the request after the last complete one were delivered
Partial(cs) == LET k == cs.nreq - cs.base IN cs.upto > (IF k = 0 THEN 0 ELSE cs.ends[k])
\* the next request is a raw frame (non-array value, malformed or odd array) that the server may answer by closing
DropOK(cs) == LET i == cs.nrep + 1 IN
              /\ i <= Len(cs.reqs) /\ cs.reqs[i].frame
              /\ (i <= cs.nreq \/ (i = cs.nreq + 1 /\ Partial(cs)))

\* the server asks the transport for bytes that were not sent yet (C03):
\* every fully received request has been answered, nothing half-written, no call pending
OnBlock(cs) ==
  IF cs.wild THEN (IF Live(cs) /\ ~cs.closed THEN cs ELSE Reject) ELSE
  IF Live(cs) /\ ~cs.closed /\ cs.calls = <<>> /\ cs.wbuf = <<>> /\ cs.nrep = cs.nreq /\ ~cs.quit /\ ~cs.dropped
  THEN cs ELSE Reject

\* a handler call: only for a completely received request (C11), only when authorized (C08),
\* seeing this connection's own state (C13), while registered (C15)
OnCall(cs, e) ==
  IF cs.wild THEN (IF Live(cs) /\ ~cs.closed /\ (cs.auth \/ e.m = "Auth") THEN cs ELSE Reject) ELSE
  IF /\ Live(cs) /\ ~cs.closed /\ HasCur(cs)
     /\ (cs.auth \/ e.m = "Auth")
     /\ e.db = cs.db /\ e.auth = cs.auth /\ e.ud = cs.ud /\ e.inreg
  THEN [cs EXCEPT !.calls = Append(cs.calls, e)]
  ELSE Reject

FirstKey(e) == IF e.a = <<>> THEN ""
               ELSE IF "s" \in DOMAIN e.a[1] THEN e.a[1].s
               ELSE IF "l" \in DOMAIN e.a[1] /\ e.a[1].l # <<>> THEN e.a[1].l[1].s ELSE ""

OnCallRet(cs, e) ==
  IF cs.wild THEN cs ELSE
  IF cs.calls = <<>> \/ HasRes(cs.calls[Len(cs.calls)]) \/ cs.calls[Len(cs.calls)].m # e.m THEN Reject
  ELSE LET n == Len(cs.calls)
           c == cs.calls[n]
           c2 == [x \in DOMAIN c \cup {"res"} |-> IF x = "res" THEN e.res ELSE c[x]]
           k == FirstKey(c) IN
       [cs EXCEPT !.calls = [cs.calls EXCEPT ![n] = c2],
                  !.ud = IF k \in DOMAIN UdOf THEN UdOf[k] ELSE cs.ud]

\* one complete reply frame v for the current request
OnReply(cs, v, cfg) ==
  IF ~HasCur(cs) THEN Reject                              \* a reply nobody asked for
  ELSE LET r == Cur(cs)
           x == ReqExpect(cs, r, cfg)
           done == [cs EXCEPT !.nrep = cs.nrep + 1, !.calls = <<>>, !.rootreplies = cs.rootreplies + 1] IN
    CASE x.kind = "exact" -> IF cs.calls = <<>> /\ v = x.v THEN done ELSE Reject
      [] x.kind = "error" -> IF cs.calls = <<>> /\ v.t = "err" THEN done ELSE Reject
      [] x.kind = "frameany" -> done
      [] x.kind = "oneframe" -> done
      [] x.kind = "derived" -> done
      [] x.kind = "quit" -> IF cs.calls = <<>> /\ v = OKV THEN [done EXCEPT !.quit = TRUE] ELSE Reject
      [] x.kind = "select" -> IF cs.calls = <<>> /\ v = OKV THEN [done EXCEPT !.db = x.n] ELSE Reject
      [] x.kind = "selectany" -> IF cs.calls # <<>> THEN Reject
                                 ELSE IF v.t = "err" THEN done
                                 ELSE IF v = OKV /\ IsSmall(x.t) THEN [done EXCEPT !.db = IntVal(x.t)]
                                 ELSE IF v = OKV THEN [done EXCEPT !.db = 0 - 1]    \* unknown big id: later calls cannot be judged
                                 ELSE Reject
      [] x.kind = "auth" -> IF cs.calls = <<>> /\ AuthAllowed(r, cfg, v)
                            THEN [done EXCEPT !.auth = cs.auth \/ v = OKV] ELSE Reject
      [] x.kind = "calls" -> IF ~cfg.rec THEN done                    \* store-backed handler: calls are not recorded
                             ELSE IF CallsMatch(x.e, cs.calls) /\ ReplyFromResults(x.e, cs.calls, v) THEN done ELSE Reject

\* bytes written by the server (C04: they must assemble into exactly one RESP frame per reply)
OnWrite(cs, b, failed, cfg) ==
  IF cs.wild THEN      \* arbitrary input: whatever is written must still be a sequence of RESP frames (C04), nothing else is judged
    (IF ~Live(cs) \/ cs.closed THEN Reject
     ELSE IF failed THEN cs
     ELSE LET d == DecStream(cs.wbuf \o b) IN
          IF d.st = "complete" THEN [cs EXCEPT !.wbuf = <<>>]
          ELSE IF d.st = "trunc" THEN [cs EXCEPT !.wbuf = SubSeq(cs.wbuf \o b, d.from, Len(cs.wbuf \o b))]
          ELSE Reject) ELSE
  IF ~Live(cs) \/ cs.closed \/ cs.quit THEN Reject
  ELSE IF failed THEN                                     \* the client is gone: the attempt counts, content cannot be judged
    (IF HasCur(cs) THEN [cs EXCEPT !.nrep = cs.nrep + 1, !.calls = <<>>, !.wbuf = <<>>, !.wfail = TRUE,
                                  !.rootreplies = cs.rootreplies + 1] ELSE Reject)
  ELSE LET w == cs.wbuf \o b
           r == Dec(w, 1) IN
    IF r.ok THEN (IF r.next = Len(w) + 1 THEN OnReply([cs EXCEPT !.wbuf = <<>>], r.v, cfg) ELSE Reject)   \* bytes after the frame
    ELSE IF r.why = "trunc" THEN [cs EXCEPT !.wbuf = w]
    ELSE Reject                                           \* not RESP

OnEos(cs, how) == IF ~cs.opened THEN Reject ELSE [cs EXCEPT !.eos = how]

\* the server closes the socket: legitimate after QUIT, after the client ended the stream, after a
\* protocol error it chose not to answer, or when a write failed
OnClose(cs) ==
  IF cs.wild THEN (IF Live(cs) /\ ~cs.closed THEN [cs EXCEPT !.closed = TRUE] ELSE Reject) ELSE
  IF ~Live(cs) \/ cs.closed THEN Reject
  ELSE IF cs.calls # <<>> /\ ~(\E i \in 1..Len(cs.calls) : ResFail(cs.calls[i])) THEN Reject
  ELSE IF cs.quit \/ cs.eos # "none" \/ cs.wfail THEN [cs EXCEPT !.closed = TRUE]
  ELSE IF DropOK(cs) \/ (HasCur(cs) /\ cs.calls # <<>> /\ ResFail(cs.calls[Len(cs.calls)]) /\ cs.calls[Len(cs.calls)].res.t = "nilmsg")
       THEN [cs EXCEPT !.closed = TRUE, !.dropped = TRUE, !.calls = <<>>]
  ELSE Reject

\* the serving goroutine ends: socket closed, deregistered, no panic, spans closed (C11, C19, C20)
OnReturn(cs, e) ==
  IF ~Live(cs) THEN Reject
  ELSE IF e.panic # "" THEN Reject                         \* a panic escaped the loop (C07)
  ELSE IF ~cs.closed \/ ~e.closed \/ e.inreg THEN Reject
  ELSE IF cs.wild THEN [cs EXCEPT !.returned = TRUE]
  ELSE IF cs.open # <<>> THEN Reject
  ELSE IF cs.calls # <<>> THEN Reject
  ELSE IF ~(cs.quit \/ cs.dropped \/ cs.wfail \/ cs.eos = "full" \/ cs.nrep = cs.nreq) THEN Reject   \* every complete request answered
  ELSE [cs EXCEPT !.returned = TRUE]

---------------------------------------------------------------------------
(* Tracing spans (C20)                                                     *)
IsOpen(cs, id) == \E i \in 1..Len(cs.open) : cs.open[i].id = id

OnSpanStart(cs, e) ==
  IF ~Live(cs) THEN Reject
  ELSE IF e.parent = 0
    THEN (IF cs.open = <<>> THEN [cs EXCEPT !.open = <<[id |-> e.id, parent |-> 0]>>, !.rootreplies = 0, !.roots = cs.roots + 1]
          ELSE Reject)                                     \* a second root while one is open
  ELSE IF IsOpen(cs, e.parent) THEN [cs EXCEPT !.open = Append(cs.open, [id |-> e.id, parent |-> e.parent])]
  ELSE Reject                                              \* child of a span that is not open

OnSpanFinish(cs, e) ==
  IF ~Live(cs) \/ e.nth # 1 \/ ~IsOpen(cs, e.id) THEN Reject       \* finished twice / never started
  ELSE IF \E i \in 1..Len(cs.open) : cs.open[i].parent = e.id THEN Reject     \* a child is still open
  ELSE [cs EXCEPT !.open = SelectSeq(cs.open, LAMBDA s : s.id # e.id)]

\* with a tracer installed, a reply is written inside an open root span, one reply per root
SpanReplyOK(cs) == cs.open # <<>> /\ cs.rootreplies = 0
=============================================================================
