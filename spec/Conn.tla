-------------------------------- MODULE Conn --------------------------------
(***************************************************************************)
(* The per-connection loop of the server at the level the properties talk  *)
(* about: requests received completely, handler calls, one reply frame per *)
(* request, the connection's authorization / database / user data, QUIT,   *)
(* end of stream, release of the connection, tracing spans.                *)
(*                                                                         *)
(* Everything is a pure function of a connection-state record, so that the *)
(* same operators define (a) the abstract model that TLC explores          *)
(* exhaustively (MC_C03, MC_C08, MC_C13 ...) and (b) the trace             *)
(* specification TraceConn.tla that judges executions of the real code.    *)
(***************************************************************************)
EXTENDS RESP, Commands, Glob, TLC

OKV   == Str(<<79, 75>>)
PONGV == Str(<<80, 79, 78, 71>>)

\* probe keys on which the handler double evaluates a compiled SCAN pattern (same list in harness/doubles.go)
Probe == << <<>>, <<97>>, <<107, 49>>, <<107, 50>>, <<97, 98>>, <<97, 46, 99>>, <<97, 98, 99>>, <<107, 42>>, <<42>>, <<120, 40, 121>> >>

\* user-data directive carried by a key symbol (handler double: conn.Store("ud", x))
UdOf == [x \in {"k:ud=a", "k:ud=b"} |-> IF x = "k:ud=a" THEN "a" ELSE "b"]

---------------------------------------------------------------------------
(* Connection state                                                        *)
NewConn(requirepass) ==
  [opened |-> TRUE,
   auth |-> ~requirepass, db |-> 0, ud |-> "",
   reqs |-> <<>>,          \* annotations of all requests whose bytes were (partly) handed to the transport
   base |-> 0,             \* number of requests of earlier batches
   ends |-> <<>>, upto |-> 0,   \* byte offsets of the current batch: end of each request, bytes delivered
   nreq |-> 0,             \* requests delivered completely
   nrep |-> 0,             \* replies written
   calls |-> <<>>,         \* handler calls not yet attributed to an answered request (in call order)
   wbuf |-> <<>>,          \* bytes of an incomplete reply frame written so far (a frame may take several writes,
                           \* and one write may hold several frames: the server may batch replies as long as
                           \* everything is written before it waits for input)
   quit |-> FALSE, closed |-> FALSE, returned |-> FALSE, lost |-> FALSE,
   wild |-> FALSE,         \* the client sends arbitrary bytes (C07 offender): replies are only required to be RESP frames
   eos |-> "none",         \* "none" | "half" | "full": how the client ended the stream; "stop": the application stopped the server
   wfail |-> FALSE,        \* a write failed (client gone)
   dropped |-> FALSE,      \* the server answered a protocol error by closing
   open |-> <<>>,          \* open spans: sequence of [id, parent]
   rootreplies |-> 0, roots |-> 0]

Idle == [opened |-> FALSE]

---------------------------------------------------------------------------
(* What the server owes for one request                                    *)
Exact(v)  == [kind |-> "exact", v |-> v]
ErrorE    == [kind |-> "error"]
OneFrameE == [kind |-> "oneframe"]

ReqExpect(cs, r, cfg) ==
  IF r.frame THEN [kind |-> "frameany"]      \* a raw frame (non-array value, odd array): any ONE frame, or the connection is closed
  ELSE IF r.name \notin (Registered \cup cfg.custom) THEN ErrorE                 \* unknown command: error, no call
  ELSE IF ~cs.auth /\ r.name # "AUTH" THEN ErrorE                                  \* password gate (C08)
  ELSE IF r.name \in cfg.custom THEN        \* the executor the application registered LAST under that name (also over a built-in command)
    [kind |-> "calls", e |-> Well(<<Call(cfg.tags[r.name], <<L(r.args)>>, NoOpt)>>, "seq", "result")]
  ELSE CASE
    r.name = "PING" -> IF r.args = <<>> THEN Exact(PONGV)
                       ELSE IF Len(r.args) = 1 /\ ~IsNull(r.args[1]) THEN Exact(Bulk(r.args[1].b))
                       ELSE OneFrameE
    [] r.name = "ECHO" -> IF r.args = <<>> \/ IsNull(r.args[1]) THEN ErrorE
                          ELSE IF Len(r.args) = 1 THEN Exact(Bulk(r.args[1].b))
                          ELSE OneFrameE
    [] r.name = "QUIT" -> [kind |-> "quit"]
    [] r.name = "SELECT" -> IF r.args = <<>> \/ IsNull(r.args[1]) \/ ~IsIntTok(r.args[1]) THEN ErrorE
                            ELSE IF Len(r.args) > 1 \/ ~IsSmall(r.args[1]) \/ IntVal(r.args[1]) < 0 THEN [kind |-> "selectany", t |-> r.args[1]]
                            ELSE [kind |-> "select", n |-> IntVal(r.args[1])]
    [] r.name = "AUTH" -> IF cfg.authdouble
                          THEN (IF r.args = <<>> \/ AnyNull(r.args) THEN ErrorE
                                ELSE IF Len(r.args) = 1 THEN [kind |-> "calls", e |-> One("Auth", <<[s |-> "s:empty"], S(r.args[1])>>, NoOpt)]
                                ELSE IF Len(r.args) = 2 THEN [kind |-> "calls", e |-> One("Auth", <<S(r.args[1]), S(r.args[2])>>, NoOpt)]
                                ELSE OneFrameE)
                          ELSE [kind |-> "auth"]
    [] r.name = "CONFIG" -> OneFrameE
    [] r.name \in DerivedCommands -> IF DerivedState(r.name, r.args) = "ill" THEN ErrorE ELSE [kind |-> "derived"]
    [] OTHER -> LET e == Expect(r.name, r.args) IN
                CASE e.st = "well" -> [kind |-> "calls", e |-> e]
                  [] e.st = "ill" -> ErrorE
                  [] OTHER -> OneFrameE

---------------------------------------------------------------------------
(* AUTH rule (C08), stated exactly as far as the property goes             *)
AuthAllowed(r, cfg, v) ==
  LET n == Len(r.args)
      exactAt(i) == ~IsNull(r.args[i]) /\ r.args[i].b = cfg.pw
      success == v = OKV IN
  IF ~cfg.requirepass THEN v.t \in {"str", "err"}            \* nothing configured: the property is silent
  ELSE /\ (success \/ v.t = "err")
       /\ (success => \E i \in 1..n : exactAt(i))            \* (a) necessary: the exact password was presented
       /\ (success /\ n = 1 => exactAt(1))
       /\ (success /\ n = 2 => exactAt(2) /\ ~IsNull(r.args[1]) /\ r.args[1].b = <<>>)   \* (c) no user name is configured
       /\ (n = 1 /\ exactAt(1) => success)                   \* (b) sufficient: plain AUTH <exact> succeeds
       /\ (n = 0 => ~success)

---------------------------------------------------------------------------
(* Handler calls against the grammar                                       *)
FlagsEq(a, b, fs) == \A f \in fs : a[f] = b[f]

ProbeMatches(pat) == LET idx == {i \in 1..Len(Probe) : Match(pat, Probe[i])} IN
                     [i \in 1..Cardinality(idx) |-> CHOOSE x \in idx : Cardinality({y \in idx : y < x}) = i - 1]

CallEq(exp, obs) ==
  /\ exp.m = obs.m
  /\ exp.a = obs.a
  /\ CASE exp.m = "Expire" ->
            /\ FlagsEq(exp.opt, obs.opt, {"NX", "XX", "GT", "LT"})
            /\ IF exp.opt.when.abs THEN obs.opt.unix = Num(exp.opt.when.t)
               ELSE /\ "n" \in DOMAIN obs.opt.rel_ms
                    /\ obs.opt.rel_ms.n - exp.opt.when.t * 1000 <= 0
                    /\ obs.opt.rel_ms.n - exp.opt.when.t * 1000 >= 0 - obs.lag_ms - 2
       [] exp.m = "Scan" ->
            /\ obs.opt.Count = exp.opt.Count /\ obs.opt.Type = exp.opt.Type /\ obs.opt.haspattern
            /\ obs.opt.matches = ProbeMatches(IF exp.opt.pattern.k = "default" THEN <<42>> ELSE exp.opt.pattern.b)
       [] OTHER -> exp.opt = obs.opt

HasRes(c)  == "res" \in DOMAIN c
ResOK(c)   == HasRes(c) /\ c.res.t = "val"
ResFail(c) == HasRes(c) /\ c.res.t \in {"goerr", "nilmsg", "both"}

\* does call c make its request fail?  A handler error always does; a handler returning nothing does unless the
\* framework ignores the result message (MSET, HMSET: reply "ok")
Fails(e, c) == HasRes(c) /\ (c.res.t \in {"goerr", "both"} \/ (c.res.t = "nilmsg" /\ e.reply # "ok"))
Aborts(c)   == HasRes(c) /\ c.res.t \in {"goerr", "both"}        \* the executor returns at once

\* expected calls e (Well record) against the observed calls of one request
CallsMatch(e, calls) ==
  LET n == Len(calls)
      aborted == n >= 1 /\ Aborts(calls[n]) IN
  /\ \A i \in 1..n : HasRes(calls[i])
  /\ \A i \in 1..(n - 1) : ~Aborts(calls[i])                   \* nothing is called after a handler error
  /\ n <= Len(e.calls) /\ (aborted \/ n = Len(e.calls))
  /\ IF e.order = "seq"
     THEN \A i \in 1..n : CallEq(e.calls[i], calls[i])
     ELSE /\ \A i \in 1..n : \E j \in 1..Len(e.calls) : CallEq(e.calls[j], calls[i])
          /\ \A i, j \in 1..n : i # j => calls[i].a # calls[j].a

\* the reply given the results the handler returned
ReplyFromResults(e, calls, v) ==
  LET n == Len(calls) IN
  IF \E i \in 1..n : Fails(e, calls[i]) THEN v.t = "err"       \* handler error / nothing returned -> error reply
  ELSE CASE e.reply = "ok" -> v = OKV
         [] e.reply = "result" -> IF WellFormed(calls[1].res.v) THEN v = calls[1].res.v ELSE TRUE
         [] e.reply = "array" -> IF \A i \in 1..n : WellFormed(calls[i].res.v)
                                 THEN v = Arr([i \in 1..n |-> calls[i].res.v]) ELSE TRUE

---------------------------------------------------------------------------
(* Events of one connection.  Each operator returns the new state, or      *)
(* Reject if the event is not allowed in this state.                       *)
Reject == [bad |-> TRUE]
Bad(x) == "bad" \in DOMAIN x

Live(cs) == cs.opened /\ ~cs.returned

\* the request a call or a reply belongs to
Cur(cs) == cs.reqs[cs.nrep + 1]
HasCur(cs) == cs.nrep < cs.nreq /\ ~cs.quit /\ ~cs.dropped

OnReqs(cs, rs, ends) == IF cs.opened THEN [cs EXCEPT !.reqs = cs.reqs \o rs, !.base = Len(cs.reqs), !.ends = ends, !.upto = 0,
                                                    !.wild = cs.wild \/ \E i \in 1..Len(rs) : rs[i].cls = "wild"] ELSE Reject

\* bytes handed to the transport; "complete" = requests of this batch delivered completely so far
OnSend(cs, upto, complete) == IF ~cs.opened THEN Reject ELSE [cs EXCEPT !.nreq = cs.base + complete, !.upto = upto]

\* some bytes of the request after the last complete one were delivered
Partial(cs) == LET k == cs.nreq - cs.base IN cs.upto > (IF k = 0 THEN 0 ELSE cs.ends[k])
\* the next request is a raw frame (non-array value, malformed or odd array) that the server may answer by closing
DropOK(cs) == LET i == cs.nrep + 1 IN
              /\ i <= Len(cs.reqs) /\ cs.reqs[i].frame
              /\ (i <= cs.nreq \/ (i = cs.nreq + 1 /\ Partial(cs)))

\* the server asks the transport for bytes that were not sent yet (C03):
\* every fully received request has been answered, nothing half-written, no call pending
\* (once a write has failed the client is gone: what the server still reads, executes or tries to write for it cannot be
\* observed reply by reply - a buffered writer, for one, does not touch the socket again after an error - and only the
\* release of the connection is judged from then on)
OnBlock(cs) ==
  IF cs.wild \/ cs.wfail THEN (IF Live(cs) /\ ~cs.closed THEN cs ELSE Reject) ELSE
  IF Live(cs) /\ ~cs.closed /\ cs.calls = <<>> /\ cs.wbuf = <<>> /\ cs.nrep = cs.nreq /\ ~cs.quit /\ ~cs.dropped
  THEN cs ELSE Reject

\* a handler call: only for a completely received request (C11), only when authorized (C08),
\* seeing this connection's own state (C13), while registered (C15)
\* The call is queued with the number of requests received completely at that moment; which request it belongs to,
\* and whether it saw the right connection state, is decided when that request's reply is written (Reply1): the
\* trace does not say when the server finished one request and began the next, and a server that answers a pipeline
\* with one write runs the handlers of several requests before any of their replies is visible.
OnCall(cs, e) ==
  IF cs.wild THEN (IF Live(cs) /\ ~cs.closed /\ (cs.auth \/ e.m = "Auth") THEN cs ELSE Reject) ELSE
  IF Live(cs) /\ ~cs.closed /\ HasCur(cs) /\ e.inreg
  THEN [cs EXCEPT !.calls = Append(cs.calls, [f \in DOMAIN e \cup {"upto"} |-> IF f = "upto" THEN cs.nreq ELSE e[f]])]
  ELSE Reject

FirstKey(e) == IF e.a = <<>> THEN ""
               ELSE IF "s" \in DOMAIN e.a[1] THEN e.a[1].s
               ELSE IF "l" \in DOMAIN e.a[1] /\ e.a[1].l # <<>> THEN e.a[1].l[1].s ELSE ""

OnCallRet(cs, e) ==
  IF cs.wild THEN cs ELSE
  IF cs.calls = <<>> \/ HasRes(cs.calls[Len(cs.calls)]) \/ cs.calls[Len(cs.calls)].m # e.m THEN Reject
  ELSE LET n == Len(cs.calls)
           c == cs.calls[n]
           c2 == [x \in DOMAIN c \cup {"res"} |-> IF x = "res" THEN e.res ELSE c[x]] IN
       [cs EXCEPT !.calls = [cs.calls EXCEPT ![n] = c2]]

\* the calls of the request being answered saw this connection's state as it was after the previous request (C13),
\* were allowed (C08), and ran when the request had been received completely (C11); a call may change the user data
RECURSIVE SegCtx(_, _, _, _)
SegCtx(cs, seg, i, ud) ==
  IF i > Len(seg) THEN [ok |-> TRUE, ud |-> ud]
  ELSE LET c == seg[i]
           k == FirstKey(c) IN
       IF /\ HasRes(c)
          /\ (cs.auth \/ c.m = "Auth")
          /\ c.db = cs.db /\ c.auth = cs.auth /\ c.ud = ud
          /\ c.upto >= cs.nrep + 1
       THEN SegCtx(cs, seg, i + 1, IF k \in DOMAIN UdOf THEN UdOf[k] ELSE ud)
       ELSE [ok |-> FALSE, ud |-> ud]

\* how many of the queued calls belong to the request being answered (x = what the server owes for it)
FirstAbort(q, m) == LET idx == {i \in 1..m : Aborts(q[i])} IN
                    IF idx = {} THEN 0 ELSE CHOOSE i \in idx : \A j \in idx : i <= j
Take(x, q, cfg) ==
  CASE x.kind = "calls" /\ cfg.rec ->
         LET m == IF Len(x.e.calls) < Len(q) THEN Len(x.e.calls) ELSE Len(q)
             a == FirstAbort(q, m) IN
         {IF a > 0 THEN a ELSE m}                         \* as many as the grammar says, fewer after a handler error
    [] x.kind \in {"frameany", "oneframe", "derived"} -> 0..Len(q)     \* not stated by the grammar: any prefix
    [] OTHER -> {0}                                       \* answered by the framework itself: no handler call

\* one complete reply frame v for the oldest unanswered request: the set of possible next states
Reply1(cs, v, cfg) ==
  IF ~HasCur(cs) THEN {}                                  \* a reply nobody asked for
  ELSE LET r == Cur(cs)
           x == ReqExpect(cs, r, cfg) IN
    UNION {
      LET seg == SubSeq(cs.calls, 1, k)
          ctx == SegCtx(cs, seg, 1, cs.ud)
          done == [cs EXCEPT !.nrep = cs.nrep + 1, !.calls = SubSeq(cs.calls, k + 1, Len(cs.calls)), !.ud = ctx.ud,
                             !.rootreplies = cs.rootreplies + 1] IN
      IF ~ctx.ok THEN {}
      ELSE CASE x.kind = "exact" -> IF v = x.v THEN {done} ELSE {}
             [] x.kind = "error" -> IF v.t = "err" THEN {done} ELSE {}
             [] x.kind \in {"frameany", "oneframe", "derived"} -> {done}
             [] x.kind = "quit" -> IF v = OKV THEN {[done EXCEPT !.quit = TRUE]} ELSE {}
             [] x.kind = "select" -> IF v = OKV THEN {[done EXCEPT !.db = x.n]} ELSE {}
             [] x.kind = "selectany" -> IF v.t = "err" THEN {done}
                                        ELSE IF v = OKV /\ IsSmall(x.t) THEN {[done EXCEPT !.db = IntVal(x.t)]}
                                        ELSE IF v = OKV THEN {[done EXCEPT !.db = 0 - 1]}    \* unknown big id: later calls cannot be judged
                                        ELSE {}
             [] x.kind = "auth" -> IF AuthAllowed(r, cfg, v) THEN {[done EXCEPT !.auth = cs.auth \/ v = OKV]} ELSE {}
             [] x.kind = "calls" -> IF ~cfg.rec THEN {done}                    \* store-backed handler: calls are not recorded
                                    ELSE IF CallsMatch(x.e, seg) /\ ReplyFromResults(x.e, seg, v) THEN {done} ELSE {}
      : k \in Take(x, cs.calls, cfg) }

\* Bytes written by the server (C04: they assemble into complete RESP frames, one per request, in order).  States are
\* pairs [cs, aux]: aux is whatever the trace specification threads through the replies (the model keyspace).  The
\* trace specification folds Reply1 over the frames of a write (TraceConn!WriteFrames); the cases that need no fold:
WriteWild(p, b, failed) ==     \* arbitrary input: whatever is written must still be a sequence of RESP frames (C04), nothing else is judged
  LET cs == p.cs IN
  IF ~Live(cs) \/ cs.closed THEN {}
  ELSE IF failed THEN {p}
  ELSE LET d == DecStream(cs.wbuf \o b) IN
       IF d.st = "complete" THEN {[p EXCEPT !.cs.wbuf = <<>>]}
       ELSE IF d.st = "trunc" THEN {[p EXCEPT !.cs.wbuf = SubSeq(cs.wbuf \o b, d.from, Len(cs.wbuf \o b))]}
       ELSE {}
WriteFailed(p) ==              \* the client is gone: the attempt counts, content cannot be judged
  LET cs == p.cs IN
  IF HasCur(cs) THEN {[p EXCEPT !.cs = [cs EXCEPT !.nrep = cs.nrep + 1, !.calls = <<>>, !.wbuf = <<>>, !.wfail = TRUE,
                                                  !.rootreplies = cs.rootreplies + 1]]} ELSE {}

OnEos(cs, how) == IF ~cs.opened THEN Reject ELSE [cs EXCEPT !.eos = how]

\* the server closes the socket: legitimate after QUIT, after the client ended the stream, after a
\* protocol error it chose not to answer, or when a write failed
OnClose(cs) ==
  IF cs.wild THEN (IF Live(cs) /\ ~cs.closed THEN [cs EXCEPT !.closed = TRUE] ELSE Reject) ELSE
  IF ~Live(cs) \/ cs.closed THEN Reject
  ELSE IF cs.wfail THEN [cs EXCEPT !.closed = TRUE, !.calls = <<>>]
  ELSE IF cs.calls # <<>> /\ ~(\E i \in 1..Len(cs.calls) : ResFail(cs.calls[i])) THEN Reject
  ELSE IF cs.quit \/ cs.eos # "none" THEN [cs EXCEPT !.closed = TRUE]
  ELSE IF DropOK(cs) \/ (HasCur(cs) /\ cs.calls # <<>> /\ ResFail(cs.calls[Len(cs.calls)]) /\ cs.calls[Len(cs.calls)].res.t = "nilmsg")
       THEN [cs EXCEPT !.closed = TRUE, !.dropped = TRUE, !.calls = <<>>]
  ELSE Reject

\* the serving goroutine ends: socket closed, deregistered, no panic, spans closed (C11, C19, C20)
OnReturn(cs, e) ==
  IF ~Live(cs) THEN Reject
  ELSE IF e.panic # "" THEN Reject                         \* a panic escaped the loop (C07)
  ELSE IF ~cs.closed \/ ~e.closed \/ e.inreg THEN Reject
  ELSE IF cs.wild THEN [cs EXCEPT !.returned = TRUE]
  ELSE IF cs.open # <<>> THEN Reject
  ELSE IF cs.calls # <<>> THEN Reject
  ELSE IF ~(cs.quit \/ cs.dropped \/ cs.wfail \/ cs.eos = "full" \/ cs.nrep = cs.nreq) THEN Reject   \* every complete request answered
  ELSE [cs EXCEPT !.returned = TRUE]

---------------------------------------------------------------------------
(* Tracing spans (C20)                                                     *)
IsOpen(cs, id) == \E i \in 1..Len(cs.open) : cs.open[i].id = id

OnSpanStart(cs, e) ==
  IF ~Live(cs) THEN Reject
  ELSE IF e.parent = 0
    THEN (IF cs.open = <<>> THEN [cs EXCEPT !.open = <<[id |-> e.id, parent |-> 0]>>, !.rootreplies = 0, !.roots = cs.roots + 1]
          ELSE Reject)                                     \* a second root while one is open
  ELSE IF IsOpen(cs, e.parent) THEN [cs EXCEPT !.open = Append(cs.open, [id |-> e.id, parent |-> e.parent])]
  ELSE Reject                                              \* child of a span that is not open

OnSpanFinish(cs, e) ==
  IF ~Live(cs) \/ e.nth # 1 \/ ~IsOpen(cs, e.id) THEN Reject       \* finished twice / never started
  ELSE IF \E i \in 1..Len(cs.open) : cs.open[i].parent = e.id THEN Reject     \* a child is still open
  ELSE [cs EXCEPT !.open = SelectSeq(cs.open, LAMBDA s : s.id # e.id)]

\* With a tracer installed every request has exactly one root span (C20).  Judged where the counts are determined:
\* when the server waits for input every received request has been answered and has had its root span, plus the one
\* that may be open around the pending read; when the loop ends there is at most one more root than replies (the
\* iteration that met the end of the stream, QUIT's close or a protocol error).  Where the socket write happens
\* relative to the spans is not stated by the property (a server may flush replies after closing the span).
RootsOK(cs) == cs.roots = cs.nrep + (IF cs.open = <<>> THEN 0 ELSE 1)
RootsAtEndOK(cs) == cs.wfail \/ (cs.roots >= cs.nrep /\ cs.roots <= cs.nrep + 1)
=============================================================================
