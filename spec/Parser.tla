------------------------------ MODULE Parser ------------------------------
(***************************************************************************)
(* Implementation-shaped model of redis/proto/parser.go reading a byte     *)
(* stream that the transport delivers in arbitrary chunks.                 *)
(*                                                                         *)
(* One action per Read call of the code:                                   *)
(*   ReadType     Next(): 1-byte read of the type byte                     *)
(*   ReadLineByte nextLineBytes(): 1-byte reads up to CR                   *)
(*   SkipLF       nextLineBytes(): 1-byte read after CR, NOT inspected     *)
(*   ReadBody     nextLengthBytes(): read of min(available, still needed)  *)
(* and the environment: Deliver(k) (k more bytes arrive) and CloseWrite.   *)
(* Deliver is enabled only when the parser has consumed everything that    *)
(* was delivered, so a behaviour corresponds to exactly one partition of   *)
(* the stream into successive reads; chunk history is not part of the      *)
(* state, so all 2^(n-1) partitions are covered by O(n^2) states.          *)
(*                                                                         *)
(* Named leniencies of the code (no property forbids them):                *)
(*   ShortLineAtEOF        end of stream inside a line yields the partial  *)
(*                         line as the payload                             *)
(*   NegativeBulkIsNull    $-5 is read as a null bulk                      *)
(*   NegativeCountIsEmpty  *-1 is read as an empty array                   *)
(*   LF not checked        the byte after CR is skipped unseen             *)
(* End of stream inside an array or a bulk body is an error (never a       *)
(* value, never an array with unfilled slots).                             *)
(***************************************************************************)
EXTENDS RESP, TLC
CONSTANTS Streams,      \* set of byte streams fed to the parser
          MaxDeclared   \* largest declared bulk length accepted (the code: 512 MiB); counts are
                        \* not capped: elements are allocated as they arrive
VARIABLES stream, deliv, closed, pos, pc, kind, acc, need, stack, out
vars == <<stream, deliv, closed, pos, pc, kind, acc, need, stack, out>>

Eof   == [t |-> "eof"]
Error == [t |-> "error"]

Avail == deliv - pos
Cur   == stream[pos + 1]

\* strconv.Atoi on the digit text: [k |-> "err"] | [k |-> "huge"] | [k |-> "n", n |-> integer]
Atoi(p) ==
  LET signed == Len(p) >= 1 /\ p[1] \in {PLUS, MINUS}
      d == IF signed THEN Tail(p) ELSE p IN
  IF Len(d) = 0 \/ \E k \in 1..Len(d) : ~IsDigit(d[k]) THEN [k |-> "err"]
  ELSE IF Len(d) > 9 THEN [k |-> "huge"]
  ELSE [k |-> "n", n |-> IF signed /\ p[1] = MINUS THEN 0 - ParseNat(d) ELSE ParseNat(d)]

Init == /\ stream \in Streams
        /\ deliv = 0 /\ closed = FALSE /\ pos = 0
        /\ pc = "type" /\ kind = "" /\ acc = <<>> /\ need = 0
        /\ stack = <<>> /\ out = <<>>

---------------------------------------------------------------------------
\* environment
Deliver == /\ ~closed /\ Avail = 0 /\ deliv < Len(stream) /\ pc \notin {"done", "error"}
           /\ \E k \in 1..(Len(stream) - deliv) : deliv' = deliv + k
           /\ UNCHANGED <<stream, closed, pos, pc, kind, acc, need, stack, out>>

CloseWrite == /\ ~closed /\ deliv = Len(stream)
              /\ closed' = TRUE
              /\ UNCHANGED <<stream, deliv, pos, pc, kind, acc, need, stack, out>>

AtEOF == closed /\ Avail = 0

---------------------------------------------------------------------------
\* a value is complete: fold it into the open arrays or hand it to the caller
RECURSIVE Fold(_, _)
Fold(v, st) ==
  IF st = <<>> THEN [stack |-> <<>>, emit |-> <<v>>]
  ELSE LET top == st[Len(st)]
           e   == Append(top.e, v) IN
       IF Len(e) = top.n THEN Fold(Arr(e), SubSeq(st, 1, Len(st) - 1))
       ELSE [stack |-> [st EXCEPT ![Len(st)] = [n |-> top.n, e |-> e]], emit |-> <<>>]

Complete(v) == LET f == Fold(v, stack) IN
               /\ stack' = f.stack
               /\ out' = out \o f.emit
               /\ pc' = "type" /\ kind' = "" /\ acc' = <<>> /\ need' = 0

Fail == /\ pc' = "error" /\ out' = Append(out, Error)
        /\ UNCHANGED <<kind, acc, need, stack>>

\* what the end of a header/payload line means, by kind
LineDone ==
  CASE kind \in {"str", "err", "int"} -> Complete([t |-> kind, p |-> acc])
    [] kind = "bulklen" ->
         LET a == Atoi(acc) IN
         IF a.k # "n" THEN Fail
         ELSE IF a.n < 0 THEN Complete(Null)                      \* NegativeBulkIsNull
         ELSE IF a.n > MaxDeclared THEN Fail
         ELSE /\ need' = a.n + 2 /\ acc' = <<>> /\ pc' = "body"
              /\ UNCHANGED <<kind, stack, out>>
    [] kind = "count" ->
         LET a == Atoi(acc) IN
         IF a.k # "n" THEN Fail
         ELSE IF a.n <= 0 THEN Complete(Arr(<<>>))                \* NegativeCountIsEmpty
         ELSE /\ stack' = Append(stack, [n |-> a.n, e |-> <<>>])
              /\ pc' = "type" /\ kind' = "" /\ acc' = <<>>
              /\ UNCHANGED <<need, out>>

ReadType ==
  /\ pc = "type"
  /\ \/ /\ Avail > 0
        /\ pos' = pos + 1
        /\ IF Cur \in {STAR, DOLLAR, PLUS, MINUS, COLON}
           THEN /\ pc' = "line" /\ acc' = <<>>
                /\ kind' = CASE Cur = STAR -> "count" [] Cur = DOLLAR -> "bulklen"
                             [] Cur = PLUS -> "str" [] Cur = MINUS -> "err" [] Cur = COLON -> "int"
                /\ UNCHANGED <<need, stack, out>>
           ELSE Fail                                              \* unknown type byte
     \/ /\ AtEOF
        /\ pos' = pos
        /\ IF stack = <<>>
           THEN /\ out' = Append(out, Eof) /\ pc' = "done"       \* clean end of stream
                /\ UNCHANGED <<kind, acc, need, stack>>
           ELSE Fail                                              \* end of stream inside an array
  /\ UNCHANGED <<stream, deliv, closed>>

ReadLineByte ==
  /\ pc = "line"
  /\ \/ /\ Avail > 0
        /\ pos' = pos + 1
        /\ IF Cur = CR THEN pc' = "lf" /\ UNCHANGED <<kind, acc, need, stack, out>>
           ELSE acc' = Append(acc, Cur) /\ UNCHANGED <<pc, kind, need, stack, out>>
     \/ /\ AtEOF /\ pos' = pos /\ LineDone                        \* ShortLineAtEOF
  /\ UNCHANGED <<stream, deliv, closed>>

SkipLF ==
  /\ pc = "lf"
  /\ \/ Avail > 0 /\ pos' = pos + 1
     \/ AtEOF /\ pos' = pos
  /\ LineDone
  /\ UNCHANGED <<stream, deliv, closed>>

ReadBody ==
  /\ pc = "body"
  /\ \/ /\ Avail > 0
        /\ LET k  == IF Avail < need - Len(acc) THEN Avail ELSE need - Len(acc)
               a2 == acc \o SubSeq(stream, pos + 1, pos + k) IN
           /\ pos' = pos + k
           /\ IF Len(a2) < need THEN acc' = a2 /\ UNCHANGED <<pc, kind, need, stack, out>>
              ELSE IF a2[need - 1] = CR /\ a2[need] = LF
                   THEN Complete(Bulk(SubSeq(a2, 1, need - 2)))
                   ELSE Fail
     \/ AtEOF /\ pos' = pos /\ Fail                               \* end of stream inside a bulk body
  /\ UNCHANGED <<stream, deliv, closed>>

Next == Deliver \/ CloseWrite \/ ReadType \/ ReadLineByte \/ SkipLF \/ ReadBody
Spec == Init /\ [][Next]_vars

---------------------------------------------------------------------------
(* Refinement of RESP.tla, for EVERY delivery schedule.                    *)
Strict == LET d == DecStream(stream) IN [d EXCEPT !.vals = LenientSeq(d.vals)]   \* (a null array is handed out as an empty array)
Vals(o) == SelectSeq(o, LAMBDA x : x.t \notin {"eof", "error"})

RECURSIVE IsPrefixOf(_, _, _)
IsPrefixOf(a, b, k) == k > Len(a) \/ (k <= Len(b) /\ a[k] = b[k] /\ IsPrefixOf(a, b, k + 1))

\* values handed out so far are the strict decoder's values, in order (C02, and C06 SoundOnValid)
PrefixOK == LET a == Vals(out) b == Strict.vals IN
            IF Len(a) <= Len(b) THEN IsPrefixOf(a, b, 1) ELSE IsPrefixOf(b, a, 1)

\* a valid stream is returned completely, then end of stream; nothing is left behind
DoneOK == (pc = "done" /\ Strict.st = "complete") =>
             /\ out = Strict.vals \o <<Eof>>
             /\ pos = Len(stream)

\* a valid stream never ends in an error
NoSpuriousError == Strict.st = "complete" => pc # "error"

\* each value consumes exactly its own bytes: when the k-th top-level value has been
\* handed out and nothing of the next one was read yet, pos is where Dec says it ends
RECURSIVE EndOf(_, _, _)
EndOf(b, i, k) == IF k = 0 THEN i - 1 ELSE EndOf(b, Dec(b, i).next, k - 1)
ExactConsumption ==
  (Strict.st = "complete" /\ pc = "type" /\ stack = <<>> /\ Len(out) <= Len(Strict.vals)) =>
     pos = EndOf(stream, 1, Len(out))

\* C06 on the model: every Next() ends in value / end of stream / error, arrays are complete
Total == \A k \in 1..Len(out) : ~HasAbsent(out[k])
Terminal == pc \in {"done", "error"}
\* all strictly valid leading values are returned before the parser gives up
SoundOnValid == Terminal => LET a == Vals(out) b == Strict.vals IN Len(a) >= Len(b) /\ IsPrefixOf(b, a, 1)
\* no deadlock other than at the end: the only states without a successor are terminal or
\* waiting for the environment
Progress == Terminal \/ ENABLED Next
=============================================================================
