----------------------------- MODULE TraceConn -----------------------------
(***************************************************************************)
(* Trace specification for the connection-level properties (C03 C04 C05    *)
(* C07 C08 C10 C11 C13 C19 C20).  A trace file holds many scenarios; each  *)
(* event is consumed by the Conn.tla operator for its kind.  A scenario is *)
(* accepted iff its "end" event is reached through these steps only, in    *)
(* which case <<"OK", sc>> is printed; GiveUp skips the rest of a scenario *)
(* whose next event no operator allows (the driver reads a missing OK as a *)
(* rejection and reports the scenario).                                    *)
(***************************************************************************)
EXTENDS Conn, Json
CONSTANTS TraceFile,
          Diagnose    \* TRUE: no GiveUp, print the position reached (used to locate the rejected event)
VARIABLES l, conn, cfg

Trace == ndJsonDeserialize(TraceFile)
MaxConn == 8
Fresh == [c \in 0..(MaxConn - 1) |-> Idle]
Cfg0 == [requirepass |-> FALSE, pw |-> <<>>, authdouble |-> FALSE, custom |-> {}, tracer |-> FALSE, rec |-> TRUE]

Init == l = 1 /\ conn = Fresh /\ cfg = Cfg0

Upd(c, n) == ~Bad(n) /\ conn' = [conn EXCEPT ![c] = n] /\ UNCHANGED cfg

Handle(e) ==
  CASE e.ev = "scenario" ->
         /\ cfg' = [requirepass |-> e.requirepass, pw |-> e.pw, authdouble |-> e.authdouble,
                    custom |-> IF e.customexec THEN {"MYCMD"} ELSE {}, tracer |-> e.tracer, rec |-> e.handler = "rec"]
         /\ conn' = Fresh
    [] e.ev = "open"      -> ~conn[e.c].opened /\ conn' = [conn EXCEPT ![e.c] = NewConn(cfg.requirepass)] /\ UNCHANGED cfg
    [] e.ev = "reqs"      -> Upd(e.c, OnReqs(conn[e.c], e.reqs, e.ends))
    [] e.ev = "send"      -> Upd(e.c, OnSend(conn[e.c], e.upto, e.complete))
    [] e.ev = "halfclose" -> Upd(e.c, OnEos(conn[e.c], "half"))
    [] e.ev = "fullclose" -> Upd(e.c, OnEos(conn[e.c], "full"))
    [] e.ev = "wfail"     -> UNCHANGED <<conn, cfg>>
    [] e.ev = "block"     -> Upd(e.c, OnBlock(conn[e.c]))
    [] e.ev = "call"      -> Upd(e.c, OnCall(conn[e.c], e))
    [] e.ev = "callret"   -> Upd(e.c, OnCallRet(conn[e.c], e))
    [] e.ev = "write"     -> /\ (cfg.tracer => SpanReplyOK(conn[e.c]))
                             /\ Upd(e.c, OnWrite(conn[e.c], e.b, e.failed, cfg))
    [] e.ev = "close"     -> Upd(e.c, OnClose(conn[e.c]))
    [] e.ev = "return"    -> Upd(e.c, OnReturn(conn[e.c], e))
    [] e.ev = "span"      -> IF e.op = "start" THEN Upd(e.c, OnSpanStart(conn[e.c], e))
                             ELSE Upd(e.c, OnSpanFinish(conn[e.c], e))
    [] OTHER -> FALSE      \* "stall" and anything unknown: never allowed

\* every connection that was opened has been released
EndOK == \A c \in 0..(MaxConn - 1) : conn[c].opened => conn[c].returned

Step == /\ l <= Len(Trace) /\ Trace[l].ev # "end"
        /\ Handle(Trace[l])
        /\ l' = l + 1

End == /\ l <= Len(Trace) /\ Trace[l].ev = "end"
       /\ EndOK
       /\ PrintT(<<"OK", Trace[l].sc>>)
       /\ l' = l + 1 /\ conn' = Fresh /\ cfg' = Cfg0

GiveUp == /\ ~Diagnose
          /\ l <= Len(Trace)
          /\ l' = Trace[l].end + 1 /\ conn' = Fresh /\ cfg' = Cfg0

DiagAt == Diagnose => PrintT(<<"AT", l>>)

Next == Step \/ End \/ GiveUp
Spec == Init /\ [][Next]_<<l, conn, cfg>>
=============================================================================
