----------------------------- MODULE TraceConn -----------------------------
(***************************************************************************)
(* Trace specification for the connection-level properties (C03 C04 C05    *)
(* C07 C08 C10 C11 C13 C19 C20).  A trace file holds many scenarios; each  *)
(* event is consumed by the Conn.tla operator for its kind.  A scenario is *)
(* accepted iff its "end" event is reached through these steps only, in    *)
(* which case <<"OK", sc>> is printed; GiveUp skips the rest of a scenario *)
(* whose next event no operator allows (the driver reads a missing OK as a *)
(* rejection and reports the scenario).                                    *)
(***************************************************************************)
EXTENDS Conn, Json
CONSTANTS TraceFile,
          Diagnose    \* TRUE: no GiveUp, print the position reached (used to locate the rejected event)
VARIABLES l, conn, cfg,
          store,   \* model keyspaces: database id -> RedisModel keyspace (scenarios with model = TRUE)
          conf     \* [p: parameters stored with CONFIG SET, scan: the SCAN cursor iteration in progress]

RM == INSTANCE RedisModel
Trace == ndJsonDeserialize(TraceFile)
MaxConn == 8
Fresh == [c \in 0..(MaxConn - 1) |-> Idle]
Cfg0 == [requirepass |-> FALSE, pw |-> <<>>, authdouble |-> FALSE, custom |-> {}, tags |-> <<>>, tracer |-> FALSE, rec |-> TRUE, model |-> FALSE, mconns |-> {}]
NoStore == [d \in {} |-> 0]
NoScan == [on |-> FALSE, pat |-> <<>>, seen |-> {}, cur |-> 0]
Conf0 == [p |-> NoStore, scan |-> NoScan]
KS(db) == IF db \in DOMAIN store THEN store[db] ELSE RM!EmptyKS
PutF(f, k, v) == [x \in DOMAIN f \cup {k} |-> IF x = k THEN v ELSE f[x]]

Init == l = 1 /\ conn = Fresh /\ cfg = Cfg0 /\ store = NoStore /\ conf = Conf0

Upd(c, n) == ~Bad(n) /\ conn' = [conn EXCEPT ![c] = n] /\ UNCHANGED <<cfg, store, conf>>
UpdC(c, n) == ~Bad(n) /\ conn' = [conn EXCEPT ![c] = n] /\ UNCHANGED cfg

(* C12 / C18: the reply to a data command and the keyspace after it, against RedisModel.tla *)
RECURSIVE ConfSet(_, _, _)
ConfSet(f, ts, i) == IF i + 1 > Len(ts) THEN f ELSE ConfSet(PutF(f, ts[i].b, ts[i + 1].b), ts, i + 2)
ConfGetOK(ts, v, cf) == /\ v.t = "arr" /\ Len(v.e) = 2 * Len(ts)
                        /\ \A i \in 1..Len(ts) : /\ v.e[2 * i - 1] = Bulk(ts[i].b)
                                                 /\ (ts[i].b \in DOMAIN cf => v.e[2 * i] = Bulk(cf[ts[i].b]))

\* SCAN cursor [MATCH p] [COUNT n]: every call returns only existing keys that match; a full iteration - cursor 0, then
\* each time the cursor the server handed out, until it hands out 0 - has returned every matching key that was there
\* throughout (Redis' SCAN guarantee; how many keys a call returns and what the cursor values are is the server's choice).
\* That the iteration ends at all is checked by the driver, which gives up after a bound ("scanstuck": no rule allows it).
ScanStep(r, v, aux, ks) ==
  LET args == r.args
      mi == {i \in 2..(Len(args) - 1) : args[i].k = "word" /\ args[i].w = "MATCH"}
      pat == IF mi = {} THEN <<42>> ELSE args[(CHOOSE i \in mi : TRUE) + 1].b
      typed == \E i \in 2..Len(args) : args[i].k = "word" /\ args[i].w = "TYPE"
      sel == {k \in DOMAIN ks : Match(pat, k)}
      s0 == aux.conf.scan IN
  IF typed \/ args[1].big # "" THEN {aux}
  ELSE IF ~(v.t = "arr" /\ Len(v.e) = 2 /\ v.e[1].t = "bulk" /\ CanonNat(v.e[1].p) /\ Len(v.e[1].p) <= 9 /\ RM!IsBulkArr(v.e[2])) THEN {}
  ELSE LET got == {v.e[2].e[i].p : i \in 1..Len(v.e[2].e)}
           nxt == ParseNat(v.e[1].p)
           cont == s0.on /\ args[1].n # 0 /\ args[1].n = s0.cur /\ s0.pat = pat
           seen == (IF cont THEN s0.seen ELSE {}) \cup got IN
       IF ~(got \subseteq sel) THEN {}
       ELSE IF ~(args[1].n = 0 \/ cont) THEN {[aux EXCEPT !.conf.scan = NoScan]}      \* a cursor this iteration did not hand out
       ELSE IF nxt = 0 THEN (IF sel \subseteq seen THEN {[aux EXCEPT !.conf.scan = NoScan]} ELSE {})
       ELSE {[aux EXCEPT !.conf.scan = [on |-> TRUE, pat |-> pat, seen |-> seen, cur |-> nxt]]}

\* aux = [store, conf] threaded through the replies of one write; the result is the set of aux values the model allows
\* after reply v to the oldest unanswered request of cs ({} = the reply is not the one Redis defines)
ModelStep(cs, v, aux) ==
  LET r == cs.reqs[cs.nrep + 1]
      x == ReqExpect(cs, r, cfg)
      ks == IF cs.db \in DOMAIN aux.store THEN aux.store[cs.db] ELSE RM!EmptyKS IN
  IF ~r.frame /\ r.name = "CONFIG" /\ cs.auth /\ Len(r.args) >= 2 /\ r.args[1].k = "word" /\ ~AnyNull(r.args) THEN
    (IF r.args[1].w = "SET" /\ Len(r.args) % 2 = 1
       THEN (IF v = OKV THEN {[aux EXCEPT !.conf.p = ConfSet(aux.conf.p, Tail(r.args), 1)]} ELSE {})
     ELSE IF r.args[1].w = "GET" THEN (IF ConfGetOK(Tail(r.args), v, aux.conf.p) THEN {aux} ELSE {})
     ELSE {aux})
  ELSE IF r.frame \/ x.kind \notin {"calls", "derived"} THEN {aux}
  ELSE IF r.name = "SCAN" THEN ScanStep(r, v, aux, ks)
  ELSE LET m == RM!Exec(ks, r.name, r.args) IN
       IF m.cmp = "any" THEN (IF PrintT(<<"UNMODELLED", r.name>>) THEN {aux} ELSE {aux})
       ELSE IF RM!IsErrRes(m) THEN (IF v.t = "err" THEN {aux} ELSE {})
       ELSE IF RM!ReplyMatches(m, v)
            THEN {[aux EXCEPT !.store = PutF(aux.store, cs.db, m.ks), !.conf.scan = IF m.ks = ks THEN @ ELSE NoScan]}   \* a write ends the iteration's guarantee
            ELSE {}

\* a write: the replies it completes, in order.  P is a set of [cs, aux] pairs (several only where the trace leaves open
\* which handler calls belong to which request)
Judge(c, cs, v, aux) == IF cfg.model /\ (cfg.mconns = {} \/ c \in cfg.mconns) THEN ModelStep(cs, v, aux) ELSE {aux}
RECURSIVE WriteFrames(_, _, _, _)
WriteFrames(P, w, i, c) ==
  IF P = {} THEN {}
  ELSE IF i > Len(w) THEN {[p EXCEPT !.cs.wbuf = <<>>] : p \in P}
  ELSE LET r == Dec(w, i) IN
       IF r.ok THEN WriteFrames(UNION {{[cs |-> n, aux |-> a] : n \in Reply1(p.cs, r.v, cfg), a \in Judge(c, p.cs, r.v, p.aux)} : p \in P},
                                w, r.next, c)
       ELSE IF r.why = "trunc" THEN {[p EXCEPT !.cs.wbuf = SubSeq(w, i, Len(w))] : p \in P}
       ELSE {}                                            \* not RESP
OnWrite(p, b, failed, c) ==
  IF p.cs.wild THEN WriteWild(p, b, failed)
  ELSE IF ~Live(p.cs) \/ p.cs.closed \/ p.cs.quit THEN {}
  ELSE IF failed THEN WriteFailed(p)
  ELSE WriteFrames({p}, p.cs.wbuf \o b, 1, c)

\* the reference store's own contents after the requests delivered so far
EntryOf(k) == CASE k.ty = "string" -> [ty |-> "string", v |-> k.v, x |-> k.x]
                [] k.ty = "hash" -> [ty |-> "hash", h |-> {<<k.h[i][1], k.h[i][2]>> : i \in 1..Len(k.h)}, x |-> k.x]
                [] k.ty = "list" -> [ty |-> "list", l |-> k.l, x |-> k.x]
                [] k.ty = "set" -> [ty |-> "set", s |-> {k.s[i] : i \in 1..Len(k.s)}, x |-> k.x]
                [] k.ty = "zset" -> [ty |-> "zset", z |-> {[m |-> k.z[i].m, s |-> k.z[i].s] : i \in 1..Len(k.z)}, x |-> k.x]
DumpKS(keys) == [kk \in {keys[i].k : i \in 1..Len(keys)} |-> EntryOf(keys[CHOOSE i \in 1..Len(keys) : keys[i].k = kk])]
StoreDumpOK(e) ==
  /\ \A i \in 1..Len(e.dbs) : DumpKS(e.dbs[i].keys) = KS(e.dbs[i].db)
  /\ \A d \in DOMAIN store : store[d] # RM!EmptyKS => \E i \in 1..Len(e.dbs) : e.dbs[i].db = d

Handle(e) ==
  CASE e.ev = "scenario" ->
         /\ cfg' = [requirepass |-> e.requirepass, pw |-> e.pw, authdouble |-> e.authdouble,
                    custom |-> IF e.customexec THEN {"MYCMD"} ELSE {}, tags |-> [n \in {"MYCMD"} |-> "MyCmd"], tracer |-> e.tracer, rec |-> e.handler = "rec", model |-> e.model,
                    mconns |-> {e.modelconns[i] : i \in 1..Len(e.modelconns)}]    \* {} = every connection is judged against the model
         /\ conn' = Fresh /\ store' = NoStore /\ conf' = Conf0
    [] e.ev = "open"      -> ~conn[e.c].opened /\ conn' = [conn EXCEPT ![e.c] = NewConn(cfg.requirepass)] /\ UNCHANGED <<cfg, store, conf>>
    [] e.ev = "reqs"      -> Upd(e.c, OnReqs(conn[e.c], e.reqs, e.ends))
    [] e.ev = "send"      -> Upd(e.c, OnSend(conn[e.c], e.upto, e.complete))
    [] e.ev = "halfclose" -> Upd(e.c, OnEos(conn[e.c], "half"))
    [] e.ev = "fullclose" -> Upd(e.c, OnEos(conn[e.c], "full"))
    [] e.ev = "stop"      -> /\ conn' = [c \in DOMAIN conn |-> IF conn[c].opened /\ ~conn[c].closed      \* the application calls Stop: the server
                                                         THEN OnEos(conn[c], "stop") ELSE conn[c]]       \* may (and must) close every connection
                             /\ UNCHANGED <<cfg, store, conf>>
    [] e.ev = "note"      -> UNCHANGED <<conn, cfg, store, conf>>
    [] e.ev = "wfail"     -> UNCHANGED <<conn, cfg, store, conf>>
    [] e.ev = "register"  -> /\ cfg' = [cfg EXCEPT !.custom = @ \cup {e.name},          \* the application registers (or replaces) an executor at run time
                                              !.tags = [n \in (DOMAIN @) \cup {e.name} |-> IF n = e.name THEN e.tag ELSE @[n]]]
                             /\ UNCHANGED <<conn, store, conf>>
    [] e.ev = "sleep"     -> /\ store' = [d \in DOMAIN store |-> RM!Advance(store[d], e.ms)]      \* the model clock advances
                             /\ UNCHANGED <<conn, cfg, conf>>
    [] e.ev = "store"     -> (cfg.model => StoreDumpOK(e)) /\ UNCHANGED <<conn, cfg, store, conf>>
    [] e.ev = "block"     -> /\ Upd(e.c, OnBlock(conn[e.c]))
                             /\ (cfg.tracer /\ ~conn[e.c].wild /\ ~conn[e.c].wfail => RootsOK(conn[e.c]))
    [] e.ev = "call"      -> Upd(e.c, OnCall(conn[e.c], e))
    [] e.ev = "callret"   -> Upd(e.c, OnCallRet(conn[e.c], e))
    [] e.ev = "write"     -> LET P == OnWrite([cs |-> conn[e.c], aux |-> [store |-> store, conf |-> conf]], e.b, e.failed, e.c) IN
                             \E p \in P : /\ conn' = [conn EXCEPT ![e.c] = p.cs]
                                          /\ store' = p.aux.store /\ conf' = p.aux.conf /\ UNCHANGED cfg
    [] e.ev = "close"     -> Upd(e.c, OnClose(conn[e.c]))
    [] e.ev = "return"    -> /\ Upd(e.c, OnReturn(conn[e.c], e))
                             /\ (cfg.tracer /\ ~conn[e.c].wild => RootsAtEndOK(conn[e.c]))
    [] e.ev = "span"      -> IF e.op = "start" THEN Upd(e.c, OnSpanStart(conn[e.c], e))
                             ELSE Upd(e.c, OnSpanFinish(conn[e.c], e))
    [] OTHER -> FALSE      \* "stall" and anything unknown: never allowed

\* every connection that was opened has been released
EndOK == \A c \in 0..(MaxConn - 1) : conn[c].opened => conn[c].returned

Step == /\ l <= Len(Trace) /\ Trace[l].ev # "end"
        /\ Handle(Trace[l])
        /\ l' = l + 1

End == /\ l <= Len(Trace) /\ Trace[l].ev = "end"
       /\ EndOK
       /\ PrintT(<<"OK", Trace[l].sc>>)
       /\ l' = l + 1 /\ conn' = Fresh /\ cfg' = Cfg0 /\ store' = NoStore /\ conf' = Conf0

GiveUp == /\ ~Diagnose
          /\ l <= Len(Trace)
          /\ l' = Trace[l].end + 1 /\ conn' = Fresh /\ cfg' = Cfg0 /\ store' = NoStore /\ conf' = Conf0

DiagAt == Diagnose => PrintT(<<"AT", l>>)

Next == Step \/ End \/ GiveUp
Spec == Init /\ [][Next]_<<l, conn, cfg, store, conf>>
=============================================================================
