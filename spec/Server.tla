------------------------------- MODULE Server -------------------------------
(***************************************************************************)
(* Lifecycle of the server: Start / Stop / Restart, listener generations,  *)
(* accept loops, connection goroutines and the connection registry, with   *)
(* one action per critical section between the verif schedule points of    *)
(* redis/server.go:                                                        *)
(*                                                                         *)
(*   CallStart    Start(): open() creates the listeners          -> parks  *)
(*                at "start.opened"                                        *)
(*   StartSpawn   ... spawns one accept loop per listener and returns      *)
(*   CallStop     Stop(): ConnManager.Stop() closes every registered       *)
(*                connection                        -> parks at            *)
(*                "stop.conns-closed"                                      *)
(*   StopClose    ... closes the listeners and returns ("stop.return")     *)
(*   LoopAccept   an accept loop takes a dialled client and spawns its     *)
(*                goroutine                -> parks at "recv.before-register"*)
(*   LoopErr      Accept fails because the loop's listener was closed      *)
(*                                          -> parks at "serve.accept-error"*)
(*   LoopExit     the loop's deferred close runs and the goroutine ends    *)
(*   Register     the connection goroutine registers (or, if the server    *)
(*                was stopped meanwhile, closes the socket and ends)       *)
(*   Dial / ClientClose / ConnEnd   the environment and the end of a       *)
(*                connection goroutine                                     *)
(*                                                                         *)
(* The behavioural choices that matter are constants, so that the same     *)
(* module states the design the properties need (CloseTarget = "own",      *)
(* RegisterGuard = TRUE) and the variants in which they fail:              *)
(*   CloseTarget   "own": an exiting loop closes the listener it accepted  *)
(*                 on; "current": whatever the server holds now            *)
(*   RegisterGuard TRUE: a connection accepted in an epoch that Stop has   *)
(*                 ended is closed instead of registered; FALSE: served    *)
(*   Handshakes / HsGuard: the TLS handshake as a state of its own.  A      *)
(*                 connection is registered only after it; until then it   *)
(*                 is known to the connection manager as a handshaking     *)
(*                 transport (HsGuard) or to nobody (the code before the   *)
(*                 repair: Stop left socket and goroutine behind).         *)
(* Restart is Stop followed by Start inside one call.                      *)
(***************************************************************************)
EXTENDS Integers, Sequences, FiniteSets, TLC
CONSTANTS Programs,       \* set of controller programs: sequences over {"Start", "Stop", "Restart"}
          Clients,        \* client ids
          Kinds,          \* listener kinds, e.g. {"plain"} or {"plain", "tls"}
          CloseTarget, RegisterGuard,
          Handshakes,     \* TRUE: a client of kind "tls" is served only after its handshake, which the CLIENT drives (and may never finish)
          HsGuard,        \* TRUE: Stop also closes the transports whose handshake is still running (ConnManager.handshakes)
          Record          \* TRUE: keep the script (history) of the path; FALSE: design-level checking only (far fewer states)
VARIABLES prog, ci, cpc, running, epoch, gen, cur, lst, loops, cl, registry, script
vars == <<prog, ci, cpc, running, epoch, gen, cur, lst, loops, cl, registry, script>>

NoGen == 0

Init == /\ prog \in Programs /\ ci = 1 /\ cpc = "ready"
        /\ running = FALSE /\ epoch = 0
        /\ gen = 0 /\ cur = [k \in Kinds |-> NoGen] /\ lst = [g \in {} |-> "open"]
        /\ loops = {} /\ cl = [x \in Clients |-> [st |-> "new", k |-> "plain", e |-> 0]] /\ registry = {}
        /\ script = <<>>

Log(s) == IF Record THEN script' = Append(script, s) ELSE UNCHANGED script
Call == IF ci <= Len(prog) THEN prog[ci] ELSE "none"
KindSeq == CHOOSE s \in [1..Cardinality(Kinds) -> Kinds] : \A i, j \in 1..Cardinality(Kinds) : i # j => s[i] # s[j]

---------------------------------------------------------------------------
(* controller *)
CallStart ==
  /\ (cpc = "ready" /\ Call = "Start") \/ cpc = "restart.mid"
  /\ gen' = gen + Cardinality(Kinds)
  /\ cur' = [k \in Kinds |-> gen + (CHOOSE i \in 1..Cardinality(Kinds) : KindSeq[i] = k)]
  /\ lst' = [g \in DOMAIN lst \cup {gen + i : i \in 1..Cardinality(Kinds)} |-> IF g \in DOMAIN lst THEN lst[g] ELSE "open"]
  /\ cpc' = "start.opened"
  /\ IF cpc = "restart.mid" THEN UNCHANGED script ELSE Log(<<"call", "Start">>)    \* Restart() goes on by itself
  /\ UNCHANGED <<prog, ci, running, epoch, loops, cl, registry>>

StartSpawn ==
  /\ cpc = "start.opened"
  /\ loops' = loops \cup {[k |-> k, g |-> cur[k], pc |-> "accept", e |-> epoch] : k \in Kinds}    \* loops carry the epoch they were started in
  /\ running' = TRUE
  /\ cpc' = "ready" /\ ci' = ci + 1
  /\ Log(<<"release", "start.opened">>)
  /\ UNCHANGED <<prog, epoch, gen, cur, lst, cl, registry>>

CallStop ==
  /\ cpc = "ready" /\ Call \in {"Stop", "Restart"}
  /\ running' = FALSE
  /\ epoch' = epoch + 1                                     \* ConnManager.Stop starts a new epoch
  /\ cl' = [x \in Clients |-> IF x \in registry \/ (HsGuard /\ cl[x].st = "handshaking")
                              THEN [cl[x] EXCEPT !.st = "srvclosed"] ELSE cl[x]]   \* registered sockets (and handshaking transports) closed
  /\ registry' = {}
  /\ cpc' = "stop.conns-closed"
  /\ Log(<<"call", Call>>)
  /\ UNCHANGED <<prog, ci, gen, cur, lst, loops>>

StopClose ==
  /\ cpc = "stop.conns-closed"
  /\ lst' = [g \in DOMAIN lst |-> IF \E k \in Kinds : cur[k] = g THEN "closed" ELSE lst[g]]
  /\ cur' = [k \in Kinds |-> NoGen]
  /\ IF Call = "Restart" THEN cpc' = "restart.mid" /\ ci' = ci ELSE cpc' = "ready" /\ ci' = ci + 1
  /\ Log(<<"release", "stop.conns-closed">>)
  /\ UNCHANGED <<prog, running, epoch, gen, loops, cl, registry>>

---------------------------------------------------------------------------
(* accept loops *)
LoopAccept(l, x) ==
  /\ l \in loops /\ l.pc = "accept" /\ lst[l.g] = "open"
  /\ cl[x].st = "dialing" /\ cl[x].k = l.k
  /\ cl' = [cl EXCEPT ![x].st = "accepted", ![x].e = l.e]
  /\ Log(<<"accepted", x>>)
  /\ UNCHANGED <<prog, ci, cpc, running, epoch, gen, cur, lst, loops, registry>>

LoopErr(l) ==
  /\ l \in loops /\ l.pc = "accept" /\ lst[l.g] = "closed"
  /\ loops' = (loops \ {l}) \cup {[l EXCEPT !.pc = "err"]}
  /\ Log(<<"parked", "accept-error", l.k, l.g>>)
  /\ UNCHANGED <<prog, ci, cpc, running, epoch, gen, cur, lst, cl, registry>>

LoopExit(l) ==
  /\ l \in loops /\ l.pc = "err"
  /\ loops' = loops \ {l}
  /\ IF CloseTarget = "own" THEN UNCHANGED <<lst, cur>>            \* its own listener is already closed
     ELSE /\ lst' = [g \in DOMAIN lst |-> IF \E k \in Kinds : cur[k] = g THEN "closed" ELSE lst[g]]   \* whatever the server holds now
          /\ cur' = [k \in Kinds |-> NoGen]
  /\ Log(<<"release", "accept-error", l.k, l.g>>)
  /\ UNCHANGED <<prog, ci, cpc, running, epoch, gen, cl, registry>>

---------------------------------------------------------------------------
(* clients and connection goroutines *)
Dial(x, k) ==
  /\ cl[x].st = "new"
  /\ IF cur[k] # NoGen /\ lst[cur[k]] = "open"
     THEN cl' = [cl EXCEPT ![x] = [st |-> "dialing", k |-> k, e |-> 0]]
     ELSE cl' = [cl EXCEPT ![x] = [st |-> "refused", k |-> k, e |-> 0]]
  /\ Log(<<"dial", x, k>>)
  /\ UNCHANGED <<prog, ci, cpc, running, epoch, gen, cur, lst, loops, registry>>

\* a dialled connection that no loop will ever accept is reset when its listener closes
Orphan(x) ==
  /\ cl[x].st = "dialing" /\ ~(\E l \in loops : l.k = cl[x].k /\ l.pc = "accept" /\ lst[l.g] = "open")
  /\ cl' = [cl EXCEPT ![x].st = "closed"]
  /\ UNCHANGED <<prog, ci, cpc, running, epoch, gen, cur, lst, loops, registry, script>>

\* receiveTLS: the accepted transport is remembered as handshaking, unless Stop has ended the epoch it was accepted in
HsBegin(x) ==
  /\ Handshakes /\ cl[x].st = "accepted" /\ cl[x].k = "tls"
  /\ IF HsGuard /\ cl[x].e # epoch THEN cl' = [cl EXCEPT ![x].st = "closed"] ELSE cl' = [cl EXCEPT ![x].st = "handshaking"]
  /\ UNCHANGED <<prog, ci, cpc, running, epoch, gen, cur, lst, loops, registry, script>>

\* the client completes the handshake (its choice: no fairness, it may never happen)
HsDone(x) ==
  /\ Handshakes /\ cl[x].st = "handshaking"
  /\ cl' = [cl EXCEPT ![x].st = "shaken"]
  /\ UNCHANGED <<prog, ci, cpc, running, epoch, gen, cur, lst, loops, registry, script>>

\* ... or gives up
HsAbandon(x) ==
  /\ Handshakes /\ cl[x].st = "handshaking"
  /\ cl' = [cl EXCEPT ![x].st = "closed"]
  /\ UNCHANGED <<prog, ci, cpc, running, epoch, gen, cur, lst, loops, registry, script>>

Register(x) ==
  /\ IF Handshakes /\ cl[x].k = "tls" THEN cl[x].st = "shaken" ELSE cl[x].st = "accepted"
  /\ IF RegisterGuard /\ cl[x].e # epoch                    \* accepted in an epoch that Stop has ended
     THEN cl' = [cl EXCEPT ![x].st = "closed"] /\ UNCHANGED registry
     ELSE cl' = [cl EXCEPT ![x].st = "registered"] /\ registry' = registry \cup {x}
  /\ Log(<<"release", "before-register", x>>)
  /\ UNCHANGED <<prog, ci, cpc, running, epoch, gen, cur, lst, loops>>

ClientClose(x) ==
  /\ cl[x].st \in {"registered", "srvclosed"}
  /\ cl' = [cl EXCEPT ![x].st = "closed"]
  /\ registry' = registry \ {x}
  /\ Log(<<"close", x>>)
  /\ UNCHANGED <<prog, ci, cpc, running, epoch, gen, cur, lst, loops>>

\* the goroutine of a connection whose socket the server closed ends
ConnEnd(x) ==
  /\ cl[x].st = "srvclosed"
  /\ cl' = [cl EXCEPT ![x].st = "closed"]
  /\ UNCHANGED <<prog, ci, cpc, running, epoch, gen, cur, lst, loops, registry, script>>

Next == \/ CallStart \/ StartSpawn \/ CallStop \/ StopClose
        \/ \E l \in loops : LoopErr(l) \/ LoopExit(l) \/ \E x \in Clients : LoopAccept(l, x)
        \/ \E x \in Clients : Register(x) \/ ClientClose(x) \/ ConnEnd(x) \/ Orphan(x) \/ \E k \in Kinds : Dial(x, k)
        \/ \E x \in Clients : HsBegin(x) \/ HsDone(x) \/ HsAbandon(x)
Spec == Init /\ [][Next]_vars

---------------------------------------------------------------------------
(* C15 *)
\* between a successful Start/Restart return and the next Stop call every enabled port is open and has a live loop
ServingWhileRunning ==
  (running /\ cpc = "ready") => \A k \in Kinds : /\ cur[k] # NoGen /\ lst[cur[k]] = "open"
                                                  /\ \E l \in loops : l.g = cur[k] /\ l.pc = "accept"
\* while running the registry holds exactly the connections being served
RegistryExact == registry = {x \in Clients : cl[x].st = "registered"}
\* after Stop returned and everything in flight has settled: nothing is left
Settled == ~(\E l \in loops : ENABLED LoopErr(l) \/ ENABLED LoopExit(l)) /\ ~(\E x \in Clients : ENABLED Register(x) \/ ENABLED ConnEnd(x) \/ ENABLED Orphan(x) \/ ENABLED HsBegin(x))   \* (not HsDone: the client's move)
AfterStop == ci > 1 /\ cpc = "ready" /\ prog[ci - 1] = "Stop"
StopPostcondition ==
  (AfterStop /\ Settled) => /\ \A g \in DOMAIN lst : lst[g] = "closed"
                            /\ loops = {} /\ registry = {}
                            /\ \A x \in Clients : cl[x].st \in {"new", "closed", "refused"}
=============================================================================
