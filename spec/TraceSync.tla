----------------------------- MODULE TraceSync -----------------------------
(* C14: the trace of a race-detector run: workload coverage events and one  *)
(* "race" event per distinct report, reduced to the unordered pair of access *)
(* sites.  Sync.tla allows no concurrent conflicting accesses at all, so a   *)
(* report whose racing access is in the framework is never allowed; reports  *)
(* whose two accesses are both outside the framework (application handlers,  *)
(* the harness) are recorded and skipped.                                    *)
EXTENDS Integers, Sequences, TLC, Json
CONSTANTS TraceFile, Diagnose
VARIABLE l
Trace == ndJsonDeserialize(TraceFile)
Init == l = 1
Handle(e) == CASE e.ev = "race" -> ~e.framework
               [] e.ev \in {"mix", "workload", "scenario"} -> TRUE
               [] OTHER -> FALSE
Step == l <= Len(Trace) /\ Trace[l].ev # "end" /\ Handle(Trace[l]) /\ l' = l + 1
End == l <= Len(Trace) /\ Trace[l].ev = "end" /\ PrintT(<<"OK", Trace[l].sc>>) /\ l' = l + 1
GiveUp == ~Diagnose /\ l <= Len(Trace) /\ l' = Trace[l].end + 1
DiagAt == Diagnose => PrintT(<<"AT", l>>)
Next == Step \/ End \/ GiveUp
Spec == Init /\ [][Next]_l
=============================================================================
